package sim

import (
	"context"
	"crypto/tls"
	"crypto/x509"
	"encoding/json"
	"fmt"
	"io/fs"
	"net"
	"os"
	"os/exec"
	"path/filepath"
	"strconv"
	"strings"
	"sync"
	"syscall"
	"testing"
	"time"

	"github.com/attestantio/dirk/testing/resources"
	pb "github.com/wealdtech/eth2-signer-api/pb/v1"
	keystorev4 "github.com/wealdtech/go-eth2-wallet-encryptor-keystorev4"
	filesystem "github.com/wealdtech/go-eth2-wallet-store-filesystem"
	"google.golang.org/grpc"
	"google.golang.org/grpc/credentials"
)

// W7: the dirk binary itself, running as a daemon.  Everything up to here hosted Dirk's services in the simulator's
// own process and wired them together itself; what main.go does with a configuration file - reading it, handing
// permissions, administrator addresses, certificates, stores and passphrases to the services, starting the gRPC
// edge - was outside every world.  Here the binary built from the tree under test (with the verif tag, so that
// VERIF_HOOK_KILL_AT / VERIF_HOOK_FAIL_AT reach its storage points) is started on a generated base directory and
// driven over real gRPC/TLS; it is killed, stopped and started again on the same directory as a run requires.

// DaemonCfg is what a run writes into the daemon's configuration file.
type DaemonCfg struct {
	AdminIPs []string
	// PermissionsJSON is the text of the "permissions" section, written as given (the order of entries in the
	// file is part of the configuration).
	PermissionsJSON string
	Pruning         bool
	NoCA            bool
	// HomeConfig: no --base-dir; the configuration is $HOME/.dirk.json, the storage path is left at its default
	// (relative: "storage"), and every incarnation is started from a working directory of its own - a daemon started by
	// hand from a shell after the service manager had started it from somewhere else.
	HomeConfig bool
	// EnvConfig: no configuration file at all - everything comes from DIRK_* environment variables (a container
	// deployment), wallets are in the filesystem store's default location under the home directory, the storage path is
	// the default, and every incarnation is started from a working directory of its own.
	EnvConfig bool
	// RelativeStorage: the storage path is left at its default ("storage") or given as a relative path, to be
	// resolved by the binary against its base directory (or the home directory).
	RelativeStorage bool
	// LogLevel is the daemon's log-level setting (default "info").
	LogLevel string
	// GenerationTimeout, if set, is written as process.generation-timeout; ExtraPeers are further entries of the peer table.
	GenerationTimeout string
	ExtraPeers        map[string]string
	Pop               *fsPopulation
}

// fsPopulation is a population whose wallets live in a filesystem store (a template directory copied per daemon).
type fsPopulation struct {
	*Population
	template string
}

var (
	fsPopMu   sync.Mutex
	fsPops    = map[string]*fsPopulation{}
	fsPopRoot string
)

// newFSPopulation builds (once per process and tag) wallets and accounts in a filesystem store.
func newFSPopulation(t *testing.T, tag string, specs []WalletSpec) *fsPopulation {
	fsPopMu.Lock()
	defer fsPopMu.Unlock()
	if p, ok := fsPops[tag]; ok {
		return p
	}
	dir := filepath.Join(ScratchRoot(), "fswallets-"+tag)
	if err := os.MkdirAll(dir, 0o700); err != nil {
		t.Fatalf("mkdir: %v", err)
	}
	store := filesystem.New(filesystem.WithLocation(dir))
	p := &fsPopulation{Population: newPopulationOn(t, tag, specs, store, keystorev4.New(keystorev4.WithCost(t, 10))), template: dir}
	fsPops[tag] = p
	return p
}

func copyTree(src, dst string) error {
	return filepath.WalkDir(src, func(p string, d fs.DirEntry, err error) error {
		if err != nil {
			return err
		}
		rel, _ := filepath.Rel(src, p)
		out := filepath.Join(dst, rel)
		if d.IsDir() {
			return os.MkdirAll(out, 0o700)
		}
		b, err := os.ReadFile(p)
		if err != nil {
			return err
		}
		return os.WriteFile(out, b, 0o600)
	})
}

// Daemon is one base directory and the dirk process (if any) currently running on it.
type Daemon struct {
	t           *testing.T
	rc          *RunCtx
	Base        string
	Addr        string
	port        int
	cfg         DaemonCfg
	cmd         *exec.Cmd
	exited      chan struct{}
	Incarnation int
	conns       []*grpc.ClientConn
}

// NewDaemon writes a base directory (configuration, certificates, wallets, empty slashing database) for a daemon.
func NewDaemon(t *testing.T, rc *RunCtx, cfg DaemonCfg) *Daemon {
	base := NewRunDir(t)
	d := &Daemon{t: t, rc: rc, Base: base, cfg: cfg}
	must := func(err error) {
		if err != nil {
			t.Fatalf("daemon directory: %v", err)
		}
	}
	must(os.MkdirAll(filepath.Join(base, "certs"), 0o700))
	must(os.WriteFile(filepath.Join(base, "certs", "server.crt"), resources.SignerTest01Crt, 0o600))
	must(os.WriteFile(filepath.Join(base, "certs", "server.key"), resources.SignerTest01Key, 0o600))
	must(os.WriteFile(filepath.Join(base, "certs", "ca.crt"), resources.CACrt, 0o600))
	must(copyTree(cfg.Pop.template, filepath.Join(base, "wallets")))
	if cfg.EnvConfig {
		// the filesystem store's default location
		must(copyTree(cfg.Pop.template, filepath.Join(base, ".config", "ethereum2", "wallets")))
	}
	d.writeConfig()
	return d
}

func (d *Daemon) writeConfig() {
	d.port = freePort()
	d.Addr = fmt.Sprintf("127.0.0.1:%d", d.port)
	base := d.Base
	admin, _ := json.Marshal(d.cfg.AdminIPs)
	if d.cfg.AdminIPs == nil {
		admin = []byte("[]")
	}
	ca := fmt.Sprintf(`, "ca-cert": "file://%s/certs/ca.crt"`, base)
	if d.cfg.NoCA {
		ca = ""
	}
	perms := d.cfg.PermissionsJSON
	if perms == "" {
		perms = `{"client-test01": {"Wallet 1": ["All"], "Wallet 3": ["All"]}, "client-test02": {"Wallet 2": ["All"]}, "client-test03": {"Nowhere": ["All"]}}`
	}
	storage := fmt.Sprintf(` "storage-path": "%s/storage",
`, base)
	if d.cfg.HomeConfig {
		storage = ""
	} else if d.cfg.RelativeStorage {
		storage = ` "storage-path": "protection/db",
`
		_ = os.MkdirAll(filepath.Join(base, "protection"), 0o700)
	}
	logLevel := d.cfg.LogLevel
	if logLevel == "" {
		logLevel = "info"
	}
	peers := ""
	for _, id := range sortedKeys(d.cfg.ExtraPeers) {
		peers += fmt.Sprintf(`, %q: %q`, id, d.cfg.ExtraPeers[id])
	}
	gt := ""
	if d.cfg.GenerationTimeout != "" {
		gt = fmt.Sprintf(`, "generation-timeout": %q`, d.cfg.GenerationTimeout)
	}
	text := fmt.Sprintf(`{
 "log-level": "%[11]s",
 "log-file": "%[1]s/dirk.log",
 "server": {"id": 1, "name": "signer-test01", "listen-address": "%[2]s", "rules": {"admin-ips": %[3]s, "periodic-pruning": %[4]v}},
 "certificates": {"server-cert": "file://%[1]s/certs/server.crt", "server-key": "file://%[1]s/certs/server.key"%[5]s},
%[8]s "stores": [{"name": "Local", "type": "filesystem", "location": "%[1]s/wallets"}],
 "peers": {"1": "signer-test01:%[6]d"%[9]s},
 "unlocker": {"wallet-passphrases": ["pass"], "account-passphrases": ["pass"]},
 "process": {"generation-passphrase": "pass"%[10]s},
 "permissions": %[7]s
}
`, base, d.Addr, admin, d.cfg.Pruning, ca, d.port, perms, storage, peers, gt, logLevel)
	name := "dirk.json"
	if d.cfg.HomeConfig {
		name = ".dirk.json"
	}
	if d.cfg.EnvConfig {
		name = "not-read.json" // kept for the record only: the process is configured through its environment
	}
	if err := os.WriteFile(filepath.Join(base, name), []byte(text), 0o600); err != nil {
		d.t.Fatalf("config: %v", err)
	}
}

// Start launches the binary on the base directory and waits until it accepts connections.  extraEnv reaches the
// process (VERIF_HOOK_KILL_AT=..., VERIF_HOOK_FAIL_AT=...).
func (d *Daemon) Start(extraEnv ...string) error {
	if d.cmd != nil {
		return fmt.Errorf("already running")
	}
	var lastErr error
	for attempt := 0; attempt < 4; attempt++ {
		if attempt > 0 {
			d.writeConfig() // the port was taken by somebody else in the meantime
		}
		cmd := exec.Command(dirkBinary(d.t), "--base-dir", d.Base)
		cmd.Dir = d.Base
		if d.cfg.EnvConfig {
			cmd = exec.Command(dirkBinary(d.t))
			cmd.Dir = filepath.Join(d.Base, fmt.Sprintf("started-from-%d", d.Incarnation))
			if err := os.MkdirAll(cmd.Dir, 0o700); err != nil {
				return err
			}
			extraEnv = append(d.envConfig(), extraEnv...)
		} else if d.cfg.HomeConfig {
			cmd = exec.Command(dirkBinary(d.t))
			cmd.Dir = filepath.Join(d.Base, fmt.Sprintf("started-from-%d", d.Incarnation))
			if err := os.MkdirAll(cmd.Dir, 0o700); err != nil {
				return err
			}
		}
		env := []string{"HOME=" + d.Base, "PATH=/usr/bin:/bin"}
		for _, kv := range os.Environ() {
			if strings.HasPrefix(kv, "SSL_CERT_") {
				env = append(env, kv) // the generated host trust store of the TLS worlds
			}
		}
		cmd.Env = append(env, extraEnv...)
		out, err := os.OpenFile(filepath.Join(d.Base, "dirk.out"), os.O_CREATE|os.O_WRONLY|os.O_APPEND, 0o600)
		if err != nil {
			return err
		}
		cmd.Stdout, cmd.Stderr = out, out
		if err := cmd.Start(); err != nil {
			out.Close()
			return err
		}
		out.Close()
		exited := make(chan struct{})
		go func() { _ = cmd.Wait(); close(exited) }()
		d.cmd, d.exited = cmd, exited
		deadline := time.Now().Add(30 * time.Second)
		for time.Now().Before(deadline) {
			select {
			case <-exited:
				d.cmd = nil
				lastErr = fmt.Errorf("the daemon exited while starting: %s", d.LogTail(1200))
				goto next
			default:
			}
			c, err := net.DialTimeout("tcp", d.Addr, 200*time.Millisecond)
			if err == nil {
				c.Close()
				if !listensOn(cmd.Process.Pid, d.port) {
					// Somebody is listening there, and it is not this process (another worker's daemon took the port between
					// its selection and this daemon's own listen): keep waiting - this daemon will find the address in use
					// and exit, and the next attempt takes another port.
					d.rc.Stats.Inc("daemon_port_answered_by_a_foreign_listener", 1)
					time.Sleep(10 * time.Millisecond)
					continue
				}
				d.Incarnation++
				d.rc.Stats.Inc("daemon_processes_started", 1)
				return nil
			}
			time.Sleep(10 * time.Millisecond)
		}
		d.Kill()
		lastErr = fmt.Errorf("the daemon did not listen within 30 s: %s", d.LogTail(1200))
	next:
		if lastErr != nil && !strings.Contains(lastErr.Error(), "address already in use") {
			return lastErr
		}
	}
	return lastErr
}

// envConfig renders the configuration as DIRK_* environment variables.
func (d *Daemon) envConfig() []string {
	perms := d.cfg.PermissionsJSON
	if perms == "" {
		perms = `{"client-test01": {"Wallet 1": ["All"], "Wallet 3": ["All"]}, "client-test02": {"Wallet 2": ["All"]}}`
	}
	var table map[string]map[string][]string
	if err := json.Unmarshal([]byte(perms), &table); err != nil {
		d.t.Fatalf("permissions: %v", err)
	}
	clients := map[string]map[string]string{}
	env := []string{
		"DIRK_SERVER_NAME=signer-test01", "DIRK_SERVER_ID=1", "DIRK_SERVER_LISTEN_ADDRESS=" + d.Addr,
		"DIRK_CERTIFICATES_SERVER_CERT=file://" + d.Base + "/certs/server.crt", "DIRK_CERTIFICATES_SERVER_KEY=file://" + d.Base + "/certs/server.key",
		"DIRK_CERTIFICATES_CA_CERT=file://" + d.Base + "/certs/ca.crt",
		"DIRK_UNLOCKER_ACCOUNT_PASSPHRASES=pass", "DIRK_UNLOCKER_WALLET_PASSPHRASES=pass", "DIRK_PROCESS_GENERATION_PASSPHRASE=pass",
		fmt.Sprintf(`DIRK_PEERS={"1":"signer-test01:%d"}`, d.port), "DIRK_LOG_FILE=" + d.Base + "/dirk.log",
		fmt.Sprintf("DIRK_SERVER_RULES_PERIODIC_PRUNING=%v", d.cfg.Pruning),
	}
	if d.cfg.LogLevel != "" {
		env = append(env, "DIRK_LOG_LEVEL="+d.cfg.LogLevel)
	}
	for _, c := range sortedKeys(table) {
		clients[c] = map[string]string{}
		b, _ := json.Marshal(table[c])
		env = append(env, "DIRK_PERMISSIONS_"+strings.ToUpper(strings.ReplaceAll(c, "-", "_"))+"="+string(b))
	}
	b, _ := json.Marshal(clients)
	return append(env, "DIRK_PERMISSIONS="+string(b))
}

// Alive reports whether the process is still there.
func (d *Daemon) Alive() bool {
	if d.cmd == nil {
		return false
	}
	select {
	case <-d.exited:
		return false
	default:
		return true
	}
}

func (d *Daemon) dropConns() {
	for _, c := range d.conns {
		_ = c.Close()
	}
	d.conns = nil
}

// Kill ends the process as the kernel's OOM killer would (SIGKILL) and waits for it to be gone.
func (d *Daemon) Kill() {
	d.dropConns()
	if d.cmd == nil {
		return
	}
	_ = d.cmd.Process.Kill()
	<-d.exited
	d.cmd = nil
}

// Reap notes that the process has died by itself.
func (d *Daemon) Reap() {
	d.dropConns()
	if d.cmd != nil {
		<-d.exited
		d.cmd = nil
	}
}

// Stop asks the process to shut down (SIGTERM) and waits; a process that does not go is killed.
func (d *Daemon) Stop() {
	d.dropConns()
	if d.cmd == nil {
		return
	}
	_ = d.cmd.Process.Signal(syscall.SIGTERM)
	select {
	case <-d.exited:
	case <-time.After(20 * time.Second):
		_ = d.cmd.Process.Kill()
		<-d.exited
		d.rc.Stats.Inc("daemon_ignored_sigterm", 1)
	}
	d.cmd = nil
}

// Close ends whatever is running.
func (d *Daemon) Close() { d.Kill() }

// LogTail returns the end of the daemon's log and console output.
func (d *Daemon) LogTail(n int) string {
	var sb strings.Builder
	for _, f := range []string{"dirk.out", "dirk.log"} {
		b, _ := os.ReadFile(filepath.Join(d.Base, f))
		if len(b) > n {
			b = b[len(b)-n:]
		}
		sb.Write(b)
	}
	return sb.String()
}

var daemonCreds = map[string][2][]byte{
	"client-test01": {resources.ClientTest01Crt, resources.ClientTest01Key},
	"client-test02": {resources.ClientTest02Crt, resources.ClientTest02Key},
	"client-test03": {resources.ClientTest03Crt, resources.ClientTest03Key},
	"signer-test02": {resources.SignerTest02Crt, resources.SignerTest02Key},
}

// Dial opens a client connection with the given client's genuine certificate, optionally from a given local address.
func (d *Daemon) Dial(client, localIP string) (*grpc.ClientConn, error) {
	pair, ok := daemonCreds[client]
	if !ok {
		return nil, fmt.Errorf("no certificate for %q", client)
	}
	crt, err := tls.X509KeyPair(pair[0], pair[1])
	if err != nil {
		return nil, err
	}
	pool := x509.NewCertPool()
	pool.AppendCertsFromPEM(resources.CACrt)
	cfg := &tls.Config{RootCAs: pool, ServerName: "signer-test01", MinVersion: tls.VersionTLS13, Certificates: []tls.Certificate{crt}}
	opts := []grpc.DialOption{grpc.WithTransportCredentials(credentials.NewTLS(cfg))}
	if localIP != "" {
		dl := &net.Dialer{LocalAddr: &net.TCPAddr{IP: net.ParseIP(localIP)}}
		opts = append(opts, grpc.WithContextDialer(func(ctx context.Context, addr string) (net.Conn, error) { return dl.DialContext(ctx, "tcp", addr) }))
	}
	cc, err := grpc.NewClient(d.Addr, opts...)
	if err == nil {
		d.conns = append(d.conns, cc)
	}
	return cc, err
}

// remoteSigner is the signing surface of a daemon as seen through one client connection.
type remoteSigner struct {
	cl      pb.SignerClient
	timeout time.Duration
}

func (r remoteSigner) ctx(ctx context.Context) (context.Context, context.CancelFunc) {
	return context.WithTimeout(ctx, r.timeout)
}
func (r remoteSigner) SignBeaconAttestation(ctx context.Context, req *pb.SignBeaconAttestationRequest) (*pb.SignResponse, error) {
	c, cancel := r.ctx(ctx)
	defer cancel()
	return r.cl.SignBeaconAttestation(c, req)
}
func (r remoteSigner) SignBeaconAttestations(ctx context.Context, req *pb.SignBeaconAttestationsRequest) (*pb.MultisignResponse, error) {
	c, cancel := r.ctx(ctx)
	defer cancel()
	return r.cl.SignBeaconAttestations(c, req)
}
func (r remoteSigner) SignBeaconProposal(ctx context.Context, req *pb.SignBeaconProposalRequest) (*pb.SignResponse, error) {
	c, cancel := r.ctx(ctx)
	defer cancel()
	return r.cl.SignBeaconProposal(c, req)
}
func (r remoteSigner) Sign(ctx context.Context, req *pb.SignRequest) (*pb.SignResponse, error) {
	c, cancel := r.ctx(ctx)
	defer cancel()
	return r.cl.Sign(c, req)
}
func (r remoteSigner) Multisign(ctx context.Context, req *pb.MultisignRequest) (*pb.MultisignResponse, error) {
	c, cancel := r.ctx(ctx)
	defer cancel()
	return r.cl.Multisign(c, req)
}

// Signer returns the daemon's signing surface for a client (a fresh connection).
func (d *Daemon) Signer(client, localIP string) (signerAPI, error) {
	cc, err := d.Dial(client, localIP)
	if err != nil {
		return nil, err
	}
	return remoteSigner{cl: pb.NewSignerClient(cc), timeout: 20 * time.Second}, nil
}

// listensOn reports whether the process holds a listening TCP socket on the loopback port (from /proc: the socket inodes in
// LISTEN state on that port, looked for among the process's descriptors).
func listensOn(pid, port int) bool {
	inodes := map[string]bool{}
	for _, f := range []string{"/proc/net/tcp", "/proc/net/tcp6"} {
		b, err := os.ReadFile(f)
		if err != nil {
			continue
		}
		for _, line := range strings.Split(string(b), "\n")[1:] {
			fs := strings.Fields(line)
			if len(fs) < 10 || fs[3] != "0A" {
				continue
			}
			if i := strings.LastIndex(fs[1], ":"); i >= 0 {
				if p, err := strconv.ParseUint(fs[1][i+1:], 16, 32); err == nil && int(p) == port {
					inodes[fs[9]] = true
				}
			}
		}
	}
	if len(inodes) == 0 {
		return false
	}
	ents, err := os.ReadDir(fmt.Sprintf("/proc/%d/fd", pid))
	if err != nil {
		return false
	}
	for _, e := range ents {
		if l, err := os.Readlink(fmt.Sprintf("/proc/%d/fd/%s", pid, e.Name())); err == nil && strings.HasPrefix(l, "socket:[") && inodes[strings.TrimSuffix(strings.TrimPrefix(l, "socket:["), "]")] {
			return true
		}
	}
	return false
}
