package sim

import (
	"bufio"
	"bytes"
	"fmt"
	"os"
	"os/exec"
	"path/filepath"
	"regexp"
	"strconv"
	"strings"
	"syscall"
	"testing"
)

// released is one signature a child process announced on stdout.
type released struct {
	kind     string
	acct     int
	a, b     uint64 // att: source, target; prop: slot, 0
	rootHex  string
	position int // index of the stdout line
}

func parseReleased(out string) ([]released, bool) {
	var rs []released
	done := false
	sc := bufio.NewScanner(strings.NewReader(out))
	i := 0
	for sc.Scan() {
		f := strings.Fields(sc.Text())
		if len(f) == 6 && f[0] == "RELEASED" {
			acct, _ := strconv.Atoi(f[2])
			a, _ := strconv.ParseUint(f[3], 10, 64)
			b, _ := strconv.ParseUint(f[4], 10, 64)
			rs = append(rs, released{kind: f[1], acct: acct, a: a, b: b, rootHex: f[5], position: i})
		}
		if len(f) == 1 && f[0] == "DONE" {
			done = true
		}
		i++
	}
	return rs, done
}

// requireCovered checks that an export covers every released signature.
func requireCovered(rc *RunCtx, pop *Population, rel []released, ex map[string]Watermark, when string) bool {
	for _, r := range rel {
		kn := pop.Accts[r.acct].KName
		w, ok := ex[kn]
		if !ok {
			w = NoWatermark
		}
		bad := false
		if r.kind == "prop" {
			bad = w.Slot < 0 || uint64(w.Slot) < r.a
		} else {
			bad = w.Tgt < 0 || uint64(w.Tgt) < r.b || w.Src < 0 || uint64(w.Src) < r.a
		}
		if bad {
			rc.Violate("C03", "released-signature-not-recorded", fmt.Sprintf("%s: the process announced %s %d/%d for key %s before it died, but the directory it left says %v", when, r.kind, r.a, r.b, kn, w), 0)
			return false
		}
	}
	return true
}

func runChildProc(t *testing.T, dir string, seed uint64, nOps int, extraEnv []string, wrap []string) (string, int) {
	self, err := os.Executable()
	if err != nil {
		t.Fatalf("executable: %v", err)
	}
	args := append(append([]string{}, wrap...), self, "-test.run", "^TestWorker$", "-test.timeout", "5m")
	cmd := exec.Command(args[0], args[1:]...)
	cmd.Env = append(os.Environ(), "VERIF_PROP=C03", "VERIF_MODE=child", "VERIF_CHILD_DIR="+dir, "VERIF_CHILD_SEED="+strconv.FormatUint(seed, 10), "VERIF_CHILD_OPS="+strconv.Itoa(nOps), "VERIF_OUT=", "VERIF_SCRATCH="+ScratchRoot())
	cmd.Env = append(cmd.Env, extraEnv...)
	var so bytes.Buffer
	cmd.Stdout = &so
	cmd.Stderr = &so
	err = cmd.Run()
	code := 0
	if err != nil {
		if ee, ok := err.(*exec.ExitError); ok {
			code = ee.ExitCode()
		} else {
			t.Fatalf("child: %v", err)
		}
	}
	return so.String(), code
}

// runKillSweep is C03 layer 2: the same seeded workload in a real child process that kills itself
// (SIGKILL, from inside the storage hook) at its N-th storage point; consecutive seeds sweep N over one
// workload.  The parent holds the list of released signatures and inspects what the kill left behind.
func runKillSweep(t *testing.T, rc *RunCtx) {
	InitBLS()
	pop := StdPopulation(t)
	workload := rc.Seed / 32
	killAt := int(rc.Seed%32) + 1
	dir := NewRunDir(t)
	pruning := func() string {
		if rc.Ch.Pick(2, 0) == 1 {
			rc.Stats.Inc("incarnations_with_periodic_pruning", 1)
			return "VERIF_CHILD_PRUNING=1"
		}
		return "VERIF_CHILD_PRUNING=0"
	}
	out, code := runChildProc(t, dir, workload, 8, []string{"VERIF_HOOK_KILL_AT=" + strconv.Itoa(killAt), pruning()}, nil)
	rel, done := parseReleased(out)
	rc.Logf("workload %d killed at storage point %d: exit %d, %d signatures released, completed=%v", workload, killAt, code, len(rel), done)
	if code != 0 && code != -1 && !strings.Contains(out, "START") {
		rc.Violate("HARNESS", "child-failed", truncate(out, 2000), 0)
		return
	}
	if done {
		rc.Stats.Inc("kill_point_beyond_workload", 1)
	} else {
		rc.Stats.Inc("crash_real_process_kill", 1)
	}
	// Further incarnations on the same directory, each killed in turn: early kill points land in
	// whatever the instance does with an existing store while it starts.
	chain := rc.Ch.Pick(3, 0)
	desc := fmt.Sprintf("w%d/k%d/%d", workload, killAt, len(rel))
	for g := 1; g <= chain; g++ {
		prior := filepath.Join(filepath.Dir(dir), fmt.Sprintf("prior-%d-%d.txt", rc.Seed, g))
		var sb strings.Builder
		for _, r := range rel {
			fmt.Fprintf(&sb, "RELEASED %s %d %d %d -\n", r.kind, r.acct, r.a, r.b)
		}
		if err := os.WriteFile(prior, []byte(sb.String()), 0o600); err != nil {
			t.Fatalf("prior: %v", err)
		}
		k := 1 + rc.Ch.Pick(8, 0)
		o, c := runChildProc(t, dir, workload*7+uint64(g), 6, []string{"VERIF_HOOK_KILL_AT=" + strconv.Itoa(k), "VERIF_CHILD_PRIOR=" + prior, pruning()}, nil)
		_ = os.Remove(prior)
		r2, d2 := parseReleased(o)
		rc.Logf("incarnation %d on the same directory killed at its storage point %d: exit %d, %d more signatures released, completed=%v", g+1, k, c, len(r2), d2)
		if c == 4 {
			// The store refused to open after the previous kill: nothing can be signed, which is safe.
			rc.Stats.Inc("restart_open_failed", 1)
			break
		}
		if c != 0 && c != -1 {
			rc.Violate("HARNESS", "child-failed", truncate(o, 2000), 0)
			return
		}
		if !strings.Contains(o, "START") {
			rc.Stats.Inc("crash_real_process_kill_during_startup", 1)
		} else if !d2 {
			rc.Stats.Inc("crash_real_process_kill", 1)
		}
		rel = append(rel, r2...)
		desc += fmt.Sprintf("+k%d/%d", k, len(r2))
	}
	rc.Stats.Seen("cases", desc)
	rc.Sample = map[string]any{"layer": "real process kill", "workload_seed": workload, "kill_at_storage_point": killAt, "further_incarnations_killed": chain, "released_before_death": len(rel), "completed": done, "case": desc}
	verifyAfterProcess(t, rc, pop, dir, rel, fmt.Sprintf("workload %d killed at storage point %d", workload, killAt))
}

// releasedConsistent checks what the child processes announced among themselves: no two slashable
// attestations, no two different blocks for a slot (and, the announcements being in release order of
// sequential workloads, proposal slots strictly increasing per key).
func releasedConsistent(rc *RunCtx, rel []released, when string) bool {
	for i, x := range rel {
		for _, y := range rel[:i] {
			if x.acct != y.acct || x.kind != y.kind {
				continue
			}
			bad := ""
			if x.kind == "prop" {
				switch {
				case x.a == y.a && x.rootHex != y.rootHex:
					bad = "two different blocks for one slot"
				case x.a == y.a:
					bad = "the same slot signed twice"
				case x.a < y.a:
					bad = "a slot below one signed before"
				}
			} else {
				switch {
				case x.b == y.b && x.rootHex != y.rootHex:
					bad = "two different attestations for one target"
				case x.a < y.a && y.b < x.b:
					bad = "an attestation surrounding an earlier one"
				case y.a < x.a && x.b < y.b:
					bad = "an attestation surrounded by an earlier one"
				}
			}
			if bad != "" && x.rootHex != "-" && y.rootHex != "-" {
				rc.Violate("C03", "conflicting-signatures-released-by-processes", fmt.Sprintf("%s: %s: %s %d/%d after %s %d/%d for account %d", when, bad, x.kind, x.a, x.b, y.kind, y.a, y.b, x.acct), 0)
				return false
			}
		}
	}
	rc.Stats.Inc("released_lists_checked_pairwise", 1)
	return true
}

// verifyAfterProcess opens the directory a child process left behind with a fresh real stack and requires that it
// covers everything the child announced and refuses every conflicting duty.
func verifyAfterProcess(t *testing.T, rc *RunCtx, pop *Population, dir string, rel []released, when string, beforeClose ...func()) {
	if !releasedConsistent(rc, rel, when) {
		return
	}
	s := NewSched(rc, SchedCfg{})
	defer s.Close()
	inst, err := NewInstance(s, "after-kill", InstCfg{Dir: dir, Pop: pop, Permissions: FullPermissions("client1")})
	if err != nil {
		rc.Stats.Inc("restart_open_failed", 1)
		rc.Logf("restart refused: %v", err)
		return
	}
	defer inst.Close()
	defer func() {
		for _, f := range beforeClose {
			f()
		}
	}()
	if inst.Rules.VerifStore().VerifSyncWrites() {
		rc.Stats.Inc("stores_opened_with_sync_writes_option", 1)
	} else {
		rc.Stats.Inc("stores_opened_without_sync_writes_option", 1)
	}
	ex, err := inst.Export()
	if err != nil {
		rc.Violate("C03", "export-after-restart-failed", err.Error(), 0)
		return
	}
	if !requireCovered(rc, pop, rel, ex, when) {
		return
	}
	// Conflicting duties are refused after the restart.
	uniq := uint64(1 << 40)
	for _, r := range rel {
		uniq++
		var o *Op
		if r.kind == "prop" {
			o = &Op{Kind: "prop", Client: "client1", Entries: []Entry{PropEntry(r.acct, r.a, uniq)}}
		} else {
			o = &Op{Kind: "att", Client: "client1", Entries: []Entry{AttEntry(r.acct, r.a, r.b, uniq)}}
		}
		if o.Exec(inst).OK(0) {
			rc.Violate("C03", "conflicting-duty-signed-after-restart", fmt.Sprintf("%s conflicts with a signature released before (%s) and was signed after the restart", o, when), 0)
			return
		}
		rc.Stats.Inc("post_restart_conflict_probes", 1)
	}
}

// --- layer 4: full disk ------------------------------------------------------------------------

// runDiskFull is C03 layer 4: the child's store lives on a small tmpfs that a filler file has left a few pages
// of; the workload runs into ENOSPC inside badger's own writes (real system calls, nothing stubbed).  Whatever
// the child announced before, while and after the disk filled up must be covered by what a fresh stack finds
// (after space has been made, or - drawn - on the still-full disk), and conflicting duties must be refused.
// Needs the right to mount a tmpfs; where that is missing the layer counts itself as unavailable and checks nothing.
func runDiskFull(t *testing.T, rc *RunCtx) {
	InitBLS()
	pop := StdPopulation(t)
	ch := rc.Ch
	mnt := NewRunDir(t)
	sizeKB := []int{256, 512, 1024}[ch.Pick(3, 0)]
	if err := syscall.Mount("tmpfs", mnt, "tmpfs", 0, fmt.Sprintf("size=%dk", sizeKB)); err != nil {
		rc.Stats.Inc("diskfull_layer_unavailable_no_mount_right", 1)
		rc.Logf("cannot mount a tmpfs (%v): layer skipped", err)
		return
	}
	defer func() { _ = syscall.Unmount(mnt, syscall.MNT_DETACH) }()
	dir := filepath.Join(mnt, "db")
	if err := os.MkdirAll(dir, 0o700); err != nil {
		t.Fatalf("mkdir: %v", err)
	}
	// tmpfs allocates whole pages: an empty store takes about five of them, every further page of the value
	// log holds a few dozen records.
	roomyFirst := ch.Pick(4, 0) != 3
	freeKB := []int{0, 0, 4, 8}[ch.Pick(4, 0)]
	if !roomyFirst {
		freeKB = []int{16, 20, 24, 28}[ch.Pick(4, 0)]
	}
	var rel []released
	workload := rc.Seed
	if roomyFirst {
		// A first incarnation with room builds some history.
		out, code := runChildProc(t, dir, workload, 1+ch.Pick(6, 0), []string{"VERIF_CHILD_PRUNING=0"}, nil)
		if code != 0 {
			rc.Violate("HARNESS", "child-failed", truncate(out, 2000), 0)
			return
		}
		rel, _ = parseReleased(out)
	}
	filler := filepath.Join(mnt, "filler")
	var st syscall.Statfs_t
	if err := syscall.Statfs(mnt, &st); err != nil {
		t.Fatalf("statfs: %v", err)
	}
	fill := int64(st.Bavail)*int64(st.Bsize) - int64(freeKB)*1024
	if fill > 0 {
		if err := os.WriteFile(filler, make([]byte, fill), 0o600); err != nil {
			t.Fatalf("filler: %v", err)
		}
	}
	prior := filepath.Join(filepath.Dir(mnt), fmt.Sprintf("prior-df-%d.txt", rc.Seed))
	var sb strings.Builder
	for _, r := range rel {
		fmt.Fprintf(&sb, "RELEASED %s %d %d %d -\n", r.kind, r.acct, r.a, r.b)
	}
	if err := os.WriteFile(prior, []byte(sb.String()), 0o600); err != nil {
		t.Fatalf("prior: %v", err)
	}
	defer os.Remove(prior)
	env := []string{"VERIF_CHILD_PRIOR=" + prior, "VERIF_CHILD_PRUNING=0"}
	killAt := 0
	if ch.Pick(4, 0) == 3 {
		killAt = 1 + ch.Pick(60, 0)
		env = append(env, "VERIF_HOOK_KILL_AT="+strconv.Itoa(killAt))
	}
	nOps := 120 + 120*ch.Pick(3, 0)
	out, code := runChildProc(t, dir, workload*3+1, nOps, env, nil)
	r2, done := parseReleased(out)
	rel = append(rel, r2...)
	_ = syscall.Statfs(mnt, &st)
	full := st.Bavail == 0
	rc.Logf("tmpfs %dk with %dk free, %d requests: exit %d, %d signatures released, completed=%v, disk full afterwards=%v", sizeKB, freeKB, nOps, code, len(r2), done, full)
	switch {
	case code == 4:
		rc.Stats.Inc("diskfull_store_refused_to_open", 1)
	case code != 0 && code != -1 && !strings.Contains(out, "START"):
		rc.Violate("HARNESS", "child-failed", truncate(out, 2000), 0)
		return
	case code != 0 && code != -1:
		// The process died of the condition itself (badger treats some write failures as fatal): as good as a kill.
		rc.Stats.Inc("diskfull_process_died", 1)
	}
	if n := strings.Count(out, "IOFAIL"); n > 0 {
		rc.Stats.Inc("fault_disk_full_requests_failed", int64(n))
		rc.Stats.Inc("fault_disk_full_during_workload", 1)
	} else {
		rc.Stats.Inc("diskfull_workload_fitted", 1)
	}
	keepFull := ch.Pick(3, 0) == 2
	if !keepFull {
		_ = os.Remove(filler)
	} else {
		rc.Stats.Inc("diskfull_restart_on_still_full_disk", 1)
	}
	rc.Stats.Seen("cases", fmt.Sprintf("df/%d/%d/%v/%d/%d/%v/%d", sizeKB, freeKB, roomyFirst, killAt, nOps, keepFull, len(rel)))
	rc.Sample = map[string]any{"layer": "full disk", "tmpfs_kb": sizeKB, "free_kb_at_start": freeKB, "history_before": roomyFirst, "kill_at_storage_point": killAt, "requests": nOps, "released": len(rel), "disk_full_afterwards": full, "restart_on_full_disk": keepFull}
	// On a disk that is still full, closing the store never returns (badger retries the memory-table flush every
	// second for ever); space is made before the instance is closed.
	verifyAfterProcess(t, rc, pop, dir, rel, fmt.Sprintf("disk with %dk free filled up under workload %d", freeKB, workload), func() { _ = os.Remove(filler) })
}

// --- layer 3: power loss -----------------------------------------------------------------------

type traceEv struct {
	kind  string // write | sync | marker
	path  string
	n     int64
	dsync bool
}

var (
	reOpen  = regexp.MustCompile(`openat\([^,]*, "([^"]+)", ([A-Z_|0-9]+)[^)]*\)\s+= (\d+)<`)
	reWrite = regexp.MustCompile(`p?write(?:64)?\((\d+)<([^>]*)>, .*\)\s+= (\d+)$`)
	reSync  = regexp.MustCompile(`(fsync|fdatasync)\((\d+)<([^>]*)>\)\s+= 0`)
)

func parseTrace(text, dir string) []traceEv {
	var evs []traceEv
	dsyncFD := map[string]bool{}   // pid-independent: fd number -> opened with O_(D)SYNC (fds are process-wide)
	pending := map[string]string{} // pid -> first half of a call that strace split into "unfinished" / "resumed"
	for _, line := range strings.Split(text, "\n") {
		pid := ""
		if i := strings.IndexByte(line, ' '); i > 0 {
			pid = line[:i]
			line = strings.TrimSpace(line[i:])
		}
		if strings.HasSuffix(line, "<unfinished ...>") {
			pending[pid] = strings.TrimSpace(strings.TrimSuffix(line, "<unfinished ...>"))
			continue
		}
		if strings.HasPrefix(line, "<... ") {
			if j := strings.Index(line, "resumed>"); j >= 0 {
				line = pending[pid] + line[j+len("resumed>"):]
				delete(pending, pid)
			}
		}
		if m := reOpen.FindStringSubmatch(line); m != nil {
			dsyncFD[m[3]] = strings.Contains(m[2], "O_DSYNC") || strings.Contains(m[2], "O_SYNC")
			continue
		}
		if m := reWrite.FindStringSubmatch(line); m != nil {
			n, _ := strconv.ParseInt(m[3], 10, 64)
			switch {
			case m[1] == "1":
				evs = append(evs, traceEv{kind: "marker"})
			case strings.HasPrefix(m[2], dir):
				evs = append(evs, traceEv{kind: "write", path: filepath.Base(m[2]), n: n, dsync: dsyncFD[m[1]]})
			}
			continue
		}
		if m := reSync.FindStringSubmatch(line); m != nil && strings.HasPrefix(m[3], dir) {
			evs = append(evs, traceEv{kind: "sync", path: filepath.Base(m[3])})
		}
	}
	return evs
}

// runPowerLoss is C03 layer 3: the child's system calls are traced; from the trace a durability model
// per file is built (bytes written through an O_SYNC/O_DSYNC descriptor are durable on return, other
// bytes at the next fsync/fdatasync of the file) and, for every cut point after the first released
// signature, images of what a power loss could leave are opened by a fresh rules service.
func runPowerLoss(t *testing.T, rc *RunCtx) {
	InitBLS()
	ch := rc.Ch
	pop := StdPopulation(t)
	dir := NewRunDir(t)
	tracePath := filepath.Join(ScratchRoot(), fmt.Sprintf("trace-%d.txt", dirCounter))
	dirCounter++
	defer os.Remove(tracePath)
	// periodic pruning is drawn here too: with it the store may treat its records differently
	pruneEnv := "VERIF_CHILD_PRUNING=0"
	if ch.Pick(2, 0) == 1 {
		pruneEnv = "VERIF_CHILD_PRUNING=1"
		rc.Stats.Inc("incarnations_with_periodic_pruning", 1)
	}
	out, code := runChildProc(t, dir, rc.Seed, 6+ch.Pick(6, 0), []string{pruneEnv},
		[]string{"strace", "-f", "-y", "-s", "0", "-e", "trace=openat,write,pwrite64,fsync,fdatasync", "-o", tracePath})
	rel, done := parseReleased(out)
	if !done || code != 0 {
		rc.Violate("HARNESS", "traced-child-failed", fmt.Sprintf("exit %d: %s", code, truncate(out, 1500)), 0)
		return
	}
	tb, err := os.ReadFile(tracePath)
	if err != nil {
		rc.Violate("HARNESS", "no-trace", err.Error(), 0)
		return
	}
	evs := parseTrace(string(tb), dir)
	final := readAll(dir)
	// Walk the trace: per file written / durable byte counts; markers count stdout lines (START, RELEASED..., DONE).
	written, durable := map[string]int64{}, map[string]int64{}
	ends := map[string][]int64{} // per file: end offsets of the writes so far
	line := 0
	relBefore := func(lines int) []released {
		var rs []released
		for _, r := range rel {
			if r.position < lines {
				rs = append(rs, r)
			}
		}
		return rs
	}
	images, refused := 0, 0
	check := func(lens map[string]int64, lines int, what string) bool {
		rb := relBefore(lines)
		if len(rb) == 0 {
			return true
		}
		img := NewRunDir(t)
		defer os.RemoveAll(img)
		for name, b := range final {
			l, ok := lens[name]
			if !ok || l > int64(len(b)) {
				l = int64(len(b))
			}
			if err := os.WriteFile(filepath.Join(img, name), b[:l], 0o600); err != nil {
				t.Fatalf("image: %v", err)
			}
		}
		images++
		ex, err := exportOfImage(t, pop, img)
		if err != nil {
			refused++
			return true // Dirk refuses to start on this image: it signs nothing
		}
		return requireCovered(rc, pop, rb, ex, "power loss "+what)
	}
	unsynced := int64(0)
	for i, ev := range evs {
		switch ev.kind {
		case "marker":
			line++
			continue
		case "sync":
			durable[ev.path] = written[ev.path]
			continue
		case "write":
			before := written[ev.path]
			written[ev.path] += ev.n
			ends[ev.path] = append(ends[ev.path], written[ev.path])
			if ev.dsync {
				// Power cut in the middle of this synchronous write: a torn prefix of it may be on the medium.
				if line > 1 && ev.n > 1 && ch.Pick(3, 0) == 2 {
					lens := map[string]int64{}
					for k, v := range durable {
						lens[k] = v
					}
					lens[ev.path] = before + 1 + int64(ch.Pick(int(ev.n-1), 0))
					if !check(lens, line, fmt.Sprintf("during write %d (torn)", i)) {
						return
					}
				}
				durable[ev.path] = written[ev.path]
			} else {
				unsynced += ev.n
			}
		}
		if line <= 1 {
			continue // nothing released yet
		}
		// Power cut right after this system call: only what is durable survives for certain ...
		lens := map[string]int64{}
		for k := range written {
			lens[k] = durable[k]
		}
		if !check(lens, line, fmt.Sprintf("after syscall %d (volatile bytes lost)", i)) {
			return
		}
		// ... or some prefix of the volatile suffix does (background write-back may have reached any point):
		// mostly at the end of an earlier write, sometimes in the middle of one.
		for _, k := range sortedKeys(written) {
			vol := written[k] - durable[k]
			if vol <= 0 {
				continue
			}
			l2 := map[string]int64{}
			for kk, v := range lens {
				l2[kk] = v
			}
			var cands []int64
			for _, e := range ends[k] {
				if e > durable[k] {
					cands = append(cands, e)
				}
			}
			l2[k] = cands[ch.Pick(len(cands), 0)]
			what := fmt.Sprintf("after syscall %d (write-back of %s had reached byte %d of %d)", i, k, l2[k], written[k])
			if ch.Pick(4, 0) == 3 {
				l2[k] = durable[k] + int64(ch.Pick(int(vol)+1, 0))
				what = fmt.Sprintf("after syscall %d (volatile suffix of %s torn at byte %d)", i, k, l2[k])
			}
			if !check(l2, line, what) {
				return
			}
		}
	}
	rc.Stats.Inc("crash_power_loss_images", int64(images))
	rc.Stats.Inc("restart_open_failed", int64(refused))
	rc.Stats.Inc("power_loss_unsynced_bytes_seen", unsynced)
	rc.Stats.Inc("traced_syscalls", int64(len(evs)))
	rc.Stats.Seen("cases", fmt.Sprintf("power/%d/%d", rc.Seed, images))
	rc.Sample = map[string]any{"layer": "power loss from syscall trace", "released": len(rel), "trace_events": len(evs), "images_opened": images, "images_refused_by_badger": refused, "unsynced_bytes": unsynced}
}

func init() {
	noBubble["C03:kill"] = true
	noBubble["C03:power"] = true
	noBubble["C03:diskfull"] = true
	base := propRunners["C03"]
	propRunners["C03"] = func(t *testing.T, rc *RunCtx) {
		switch rc.Param("mode", "") {
		case "kill":
			runKillSweep(t, rc)
		case "power":
			runPowerLoss(t, rc)
		case "diskfull":
			runDiskFull(t, rc)
		case "daemon":
			runDaemonHist(t, rc, "C03")
		default:
			base(t, rc)
		}
	}
}
