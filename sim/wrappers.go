package sim

import (
	"context"
	"sync"

	"github.com/attestantio/dirk/rules"
	standardrules "github.com/attestantio/dirk/rules/standard"
	"github.com/attestantio/dirk/services/checker"
	staticchecker "github.com/attestantio/dirk/services/checker/static"
	"github.com/attestantio/dirk/services/fetcher"
	memfetcher "github.com/attestantio/dirk/services/fetcher/mem"
	"github.com/attestantio/dirk/services/locker"
	"github.com/attestantio/dirk/services/ruler"
	"github.com/attestantio/dirk/services/unlocker"
	localunlocker "github.com/attestantio/dirk/services/unlocker/local"
	"github.com/google/uuid"
	e2types "github.com/wealdtech/go-eth2-types/v2"
	e2wtypes "github.com/wealdtech/go-eth2-wallet-types/v2"
)

// FaultPlan is a set of faults decided before (or independently of) the schedule, addressed by
// (site, key name) so that it does not depend on the arrival order of parallel workers.
type FaultPlan struct {
	mu    sync.Mutex
	plan  map[string]string // site|key -> kind
	Fired map[string]int    // site:kind -> count
	// Touched records which key names met an injected fault.
	Touched map[string]bool
}

// NewFaultPlan creates an empty plan.
func NewFaultPlan() *FaultPlan {
	return &FaultPlan{plan: map[string]string{}, Fired: map[string]int{}, Touched: map[string]bool{}}
}

// Set plans a fault.
func (f *FaultPlan) Set(site, key, kind string) { f.plan[site+"|"+key] = kind }

// Take returns the planned fault kind for (site,key), "" if none; a fault fires every time it matches
// unless once is set.
func (f *FaultPlan) Take(site, key string, once bool) string {
	if f == nil {
		return ""
	}
	f.mu.Lock()
	defer f.mu.Unlock()
	k, ok := f.plan[site+"|"+key]
	if !ok {
		k, ok = f.plan[site+"|*"]
		if !ok {
			return ""
		}
	}
	if once {
		delete(f.plan, site+"|"+key)
		delete(f.plan, site+"|*")
	}
	f.Fired[site+":"+k]++
	f.Touched[key] = true
	return k
}

// Touch records that a key met a fault injected elsewhere (by the scheduler).
func (f *FaultPlan) Touch(site, kind, key string) {
	f.mu.Lock()
	f.Fired[site+":"+kind]++
	f.Touched[key] = true
	f.mu.Unlock()
}

// ---------------------------------------------------------------------------------------------

// RulesCall is one call seen by the rules wrapper.
type RulesCall struct {
	Op      string
	Keys    []string
	Results []rules.Result
}

// RulesWrap sits between the real ruler and the real rules service: yield points before and
// after every signing rule, optional fault injection, and a census of evaluations.
type RulesWrap struct {
	// The concrete service, not the interface: whatever further methods it offers stay visible to type assertions
	// by the code that is handed the wrapper (the same holds for the other wrappers below).
	*standardrules.Service
	s     *Sched
	inst  *Instance
	plan  *FaultPlan
	mu    sync.Mutex
	Calls []RulesCall
}

func (w *RulesWrap) record(op string, keys []string, res []rules.Result) {
	w.mu.Lock()
	w.Calls = append(w.Calls, RulesCall{Op: op, Keys: keys, Results: res})
	w.mu.Unlock()
}

func faultResult(kind string) (rules.Result, bool) {
	switch kind {
	case "unknown":
		return rules.UNKNOWN, true
	case "failed":
		return rules.FAILED, true
	case "denied":
		return rules.DENIED, true
	}
	return 0, false
}

// OnSign wraps the generic rule.
func (w *RulesWrap) OnSign(ctx context.Context, md *rules.ReqMetadata, req *rules.SignData) rules.Result {
	k := w.s.KeyName(md.PubKey)
	r := w.s.Yield(KRulesPre, "sign", k, nil, w.inst, nil)
	if r.Err != nil {
		return rules.FAILED
	}
	kind := r.Fault
	if kind == "" {
		kind = w.plan.Take("rules", k, false)
	}
	if res, ok := faultResult(kind); ok {
		w.record("sign", []string{k}, []rules.Result{res})
		return res
	}
	res := w.Service.OnSign(ctx, md, req)
	w.record("sign", []string{k}, []rules.Result{res})
	w.s.Yield(KRulesPost, "sign", k, nil, w.inst, nil)
	return res
}

// OnSignBeaconAttestation wraps the single attestation rule.
func (w *RulesWrap) OnSignBeaconAttestation(ctx context.Context, md *rules.ReqMetadata, req *rules.SignBeaconAttestationData) rules.Result {
	k := w.s.KeyName(md.PubKey)
	r := w.s.Yield(KRulesPre, "att", k, nil, w.inst, nil)
	if r.Err != nil {
		return rules.FAILED
	}
	kind := r.Fault
	if kind == "" {
		kind = w.plan.Take("rules", k, false)
	}
	if res, ok := faultResult(kind); ok {
		w.record("att", []string{k}, []rules.Result{res})
		return res
	}
	res := w.Service.OnSignBeaconAttestation(ctx, md, req)
	w.record("att", []string{k}, []rules.Result{res})
	w.s.Yield(KRulesPost, "att", k, nil, w.inst, nil)
	return res
}

// OnSignBeaconAttestations wraps the batch attestation rule.
func (w *RulesWrap) OnSignBeaconAttestations(ctx context.Context, md []*rules.ReqMetadata, req []*rules.SignBeaconAttestationData) []rules.Result {
	keys := make([]string, len(md))
	for i := range md {
		if md[i] != nil {
			keys[i] = w.s.KeyName(md[i].PubKey)
		}
	}
	k0 := ""
	if len(keys) > 0 {
		k0 = keys[0]
	}
	r := w.s.Yield(KRulesPre, "atts", k0, nil, w.inst, nil)
	fail := func(res rules.Result) []rules.Result {
		out := make([]rules.Result, len(req))
		for i := range out {
			out[i] = res
		}
		return out
	}
	if r.Err != nil {
		return fail(rules.FAILED)
	}
	kind := r.Fault
	pos := -1
	if kind == "" {
		for i, k := range keys {
			if kk := w.plan.Take("rules", k, false); kk != "" {
				kind, pos = kk, i
				break
			}
		}
	}
	switch kind {
	case "empty":
		w.record("atts", keys, nil)
		return []rules.Result{}
	case "short":
		res := w.Service.OnSignBeaconAttestations(ctx, md, req)
		w.record("atts", keys, res)
		if len(res) > 0 {
			res = res[:len(res)-1]
		}
		return res
	}
	if fr, ok := faultResult(kind); ok {
		if pos < 0 {
			w.record("atts", keys, fail(fr))
			return fail(fr)
		}
		res := w.Service.OnSignBeaconAttestations(ctx, md, req)
		w.record("atts", keys, res)
		out := append([]rules.Result{}, res...)
		if pos < len(out) {
			out[pos] = fr
		}
		return out
	}
	res := w.Service.OnSignBeaconAttestations(ctx, md, req)
	w.record("atts", keys, append([]rules.Result{}, res...))
	w.s.Yield(KRulesPost, "atts", k0, nil, w.inst, nil)
	return res
}

// OnSignBeaconProposal wraps the proposal rule.
func (w *RulesWrap) OnSignBeaconProposal(ctx context.Context, md *rules.ReqMetadata, req *rules.SignBeaconProposalData) rules.Result {
	k := w.s.KeyName(md.PubKey)
	r := w.s.Yield(KRulesPre, "prop", k, nil, w.inst, nil)
	if r.Err != nil {
		return rules.FAILED
	}
	kind := r.Fault
	if kind == "" {
		kind = w.plan.Take("rules", k, false)
	}
	if res, ok := faultResult(kind); ok {
		w.record("prop", []string{k}, []rules.Result{res})
		return res
	}
	res := w.Service.OnSignBeaconProposal(ctx, md, req)
	w.record("prop", []string{k}, []rules.Result{res})
	w.s.Yield(KRulesPost, "prop", k, nil, w.inst, nil)
	return res
}

// ---------------------------------------------------------------------------------------------

// LockEvent is one call on the locker seen by the recording wrapper.
type LockEvent struct {
	Task int
	Call string
	Key  string
}

// LockerWrap records the call sequence on the real locker; it has no behaviour of its own.
type LockerWrap struct {
	locker.Service
	s      *Sched
	mu     sync.Mutex
	Events []LockEvent
}

func (l *LockerWrap) rec(call string, key []byte) {
	l.s.mu.Lock()
	t := -1
	if l.s.running != nil {
		t = l.s.running.ID
	}
	l.s.mu.Unlock()
	k := ""
	if key != nil {
		k = l.s.KeyName(key)
	}
	l.mu.Lock()
	l.Events = append(l.Events, LockEvent{Task: t, Call: call, Key: k})
	l.mu.Unlock()
}

// PreLock forwards.
func (l *LockerWrap) PreLock() { l.Service.PreLock(); l.rec("prelock", nil) }

// PostLock forwards.
func (l *LockerWrap) PostLock() { l.rec("postlock", nil); l.Service.PostLock() }

// Lock forwards.
func (l *LockerWrap) Lock(key [48]byte) { l.Service.Lock(key); l.rec("lock", key[:]) }

// Unlock forwards.
func (l *LockerWrap) Unlock(key [48]byte) { l.rec("unlock", key[:]); l.Service.Unlock(key) }

// ---------------------------------------------------------------------------------------------

// FetcherWrap returns the real accounts wrapped in observers and can fail lookups.
type FetcherWrap struct {
	*memfetcher.Service
	s    *Sched
	inst *Instance
	plan *FaultPlan
	pop  *Population
	mu   sync.Mutex
	wrap map[e2wtypes.Account]e2wtypes.Account
}

func (f *FetcherWrap) wrapAcct(a e2wtypes.Account) e2wtypes.Account {
	if a == nil {
		return nil
	}
	f.mu.Lock()
	defer f.mu.Unlock()
	if w, ok := f.wrap[a]; ok {
		return w
	}
	base := acctBase{Account: a, f: f}
	var w e2wtypes.Account
	if _, isDist := a.(e2wtypes.DistributedAccount); isDist {
		w = &distAcct{acctBase: base}
	} else {
		w = &ndAcct{acctBase: base}
	}
	f.wrap[a] = w
	return w
}

// FetchAccount forwards with optional lookup fault.
func (f *FetcherWrap) FetchAccount(ctx context.Context, path string) (e2wtypes.Wallet, e2wtypes.Account, error) {
	key := path
	if a := f.pop.ByPath(path); a != nil {
		key = a.KName
	}
	if f.plan.Take("lookup", key, false) != "" {
		return nil, nil, ErrInjected
	}
	w, a, err := f.Service.FetchAccount(ctx, path)
	if err != nil {
		return nil, nil, err
	}
	return w, f.wrapAcct(a), nil
}

// FetchAccountByKey forwards with optional lookup fault.
func (f *FetcherWrap) FetchAccountByKey(ctx context.Context, pubKey []byte) (e2wtypes.Wallet, e2wtypes.Account, error) {
	if f.plan.Take("lookup", f.s.KeyName(pubKey), false) != "" {
		return nil, nil, ErrInjected
	}
	w, a, err := f.Service.FetchAccountByKey(ctx, pubKey)
	if err != nil {
		return nil, nil, err
	}
	return w, f.wrapAcct(a), nil
}

// AddAccount forwards after a yield point (an account created at run time becomes visible here).
func (f *FetcherWrap) AddAccount(ctx context.Context, w e2wtypes.Wallet, a e2wtypes.Account) error {
	f.s.Yield("add-account", w.Name(), a.Name(), nil, f.inst, nil)
	return f.Service.AddAccount(ctx, w, a)
}

// FetchAccounts forwards, wrapping every account.
func (f *FetcherWrap) FetchAccounts(ctx context.Context, path string) (map[string]e2wtypes.Account, error) {
	m, err := f.Service.FetchAccounts(ctx, path)
	if err != nil {
		return nil, err
	}
	out := make(map[string]e2wtypes.Account, len(m))
	for k, v := range m {
		out[k] = f.wrapAcct(v)
	}
	return out, nil
}

type acctBase struct {
	e2wtypes.Account
	f *FetcherWrap
}

func (a *acctBase) key() string { return a.f.s.KeyName(a.Account.PublicKey().Marshal()) }

func (a *acctBase) Lock(ctx context.Context) error {
	return a.Account.(e2wtypes.AccountLocker).Lock(ctx)
}

func (a *acctBase) Unlock(ctx context.Context, passphrase []byte) error {
	return a.Account.(e2wtypes.AccountLocker).Unlock(ctx, passphrase)
}

func (a *acctBase) IsUnlocked(ctx context.Context) (bool, error) {
	switch a.f.plan.Take("isunlocked", a.key(), false) {
	case "error":
		return false, ErrInjected
	case "locked":
		return false, nil
	}
	return a.Account.(e2wtypes.AccountLocker).IsUnlocked(ctx)
}

func (a *acctBase) Sign(ctx context.Context, data []byte) (e2types.Signature, error) {
	k := a.key()
	if a.f.inst != nil && a.f.inst.OnSign != nil {
		a.f.inst.OnSign(k, data)
	}
	r := a.f.s.Yield(KSign, "sign", k, nil, a.f.inst, nil)
	if r.Err != nil {
		return nil, r.Err
	}
	if a.f.plan.Take("sign", k, false) != "" {
		return nil, ErrInjected
	}
	return a.Account.(e2wtypes.AccountSigner).Sign(ctx, data)
}

func (a *acctBase) Wallet() e2wtypes.Wallet {
	return a.Account.(e2wtypes.AccountWalletProvider).Wallet()
}

func (a *acctBase) Path() string { return a.Account.(e2wtypes.AccountPathProvider).Path() }

func (a *acctBase) PrivateKey(ctx context.Context) (e2types.PrivateKey, error) {
	return a.Account.(e2wtypes.AccountPrivateKeyProvider).PrivateKey(ctx)
}

type ndAcct struct{ acctBase }

type distAcct struct{ acctBase }

func (a *distAcct) CompositePublicKey() e2types.PublicKey {
	return a.Account.(e2wtypes.AccountCompositePublicKeyProvider).CompositePublicKey()
}

func (a *distAcct) SigningThreshold() uint32 {
	return a.Account.(e2wtypes.AccountSigningThresholdProvider).SigningThreshold()
}

func (a *distAcct) VerificationVector() []e2types.PublicKey {
	return a.Account.(e2wtypes.AccountVerificationVectorProvider).VerificationVector()
}

func (a *distAcct) Participants() map[uint64]string {
	return a.Account.(e2wtypes.AccountParticipantsProvider).Participants()
}

var (
	_ e2wtypes.AccountLocker                     = (*ndAcct)(nil)
	_ e2wtypes.AccountSigner                     = (*ndAcct)(nil)
	_ e2wtypes.AccountWalletProvider             = (*ndAcct)(nil)
	_ e2wtypes.DistributedAccount                = (*distAcct)(nil)
	_ e2wtypes.AccountCompositePublicKeyProvider = (*distAcct)(nil)
	_                                            = uuid.Nil
)

// ---------------------------------------------------------------------------------------------

// CheckerWrap can make the permission check refuse.
type CheckerWrap struct {
	*staticchecker.Service
	plan *FaultPlan
	pop  *Population
}

// Check forwards with optional refusal.
func (c *CheckerWrap) Check(ctx context.Context, creds *checker.Credentials, account string, op string) bool {
	key := account
	if a := c.pop.ByPath(account); a != nil {
		key = a.KName
	}
	if c.plan.Take("check", key, false) != "" {
		return false
	}
	return c.Service.Check(ctx, creds, account, op)
}

// UnlockerWrap can make unlocking fail or find no passphrase.
type UnlockerWrap struct {
	*localunlocker.Service
	plan *FaultPlan
	s    *Sched
}

// UnlockAccount forwards with optional fault.
func (u *UnlockerWrap) UnlockAccount(ctx context.Context, w e2wtypes.Wallet, a e2wtypes.Account) (bool, error) {
	switch u.plan.Take("unlock", u.s.KeyName(a.PublicKey().Marshal()), false) {
	case "error":
		return false, ErrInjected
	case "nopass":
		return false, nil
	}
	if wa, ok := a.(interface{ inner() e2wtypes.Account }); ok {
		a = wa.inner()
	}
	return u.Service.UnlockAccount(ctx, w, a)
}

func (a *acctBase) inner() e2wtypes.Account { return a.Account }

// RulerWrap can make the ruler answer with no verdicts at all.
type RulerWrap struct {
	ruler.Service
	plan *FaultPlan
	s    *Sched
}

// RunRules forwards with optional fault: planned for a key the request names, the ruler's answer is an empty list.
func (r *RulerWrap) RunRules(ctx context.Context, credentials *checker.Credentials, action string, data []*ruler.RulesData) []rules.Result {
	for _, d := range data {
		if d != nil && r.plan.Take("ruler", r.s.KeyName(d.PubKey), false) == "empty" {
			return []rules.Result{}
		}
	}
	return r.Service.RunRules(ctx, credentials, action, data)
}

// The wrappers still are what the services are declared to be.
var (
	_ rules.Service    = (*RulesWrap)(nil)
	_ fetcher.Service  = (*FetcherWrap)(nil)
	_ checker.Service  = (*CheckerWrap)(nil)
	_ unlocker.Service = (*UnlockerWrap)(nil)
	_ locker.Service   = (*LockerWrap)(nil)
)
