package sim

import (
	"context"
	"encoding/hex"
	"fmt"
	"os"
	"path/filepath"
	"runtime"
	"sync"
	"testing"

	standardrules "github.com/attestantio/dirk/rules/standard"
	"github.com/rs/zerolog"
)

// exportOfImage opens a fresh rules service on a copy of a directory image and exports it.
func exportOfImage(t *testing.T, pop *Population, dir string) (map[string]Watermark, error) {
	tmp := NewRunDir(t)
	defer os.RemoveAll(tmp)
	if err := CopyDir(dir, tmp); err != nil {
		return nil, err
	}
	ctx, cancel := context.WithCancel(context.Background())
	defer cancel()
	svc, err := standardrules.New(ctx, standardrules.WithStoragePath(tmp), standardrules.WithLogLevel(zerolog.Disabled))
	if err != nil {
		return nil, fmt.Errorf("open image: %w", err)
	}
	defer svc.Close(context.Background())
	m, err := svc.ExportSlashingProtection(ctx)
	if err != nil {
		return nil, err
	}
	out := map[string]Watermark{}
	for k, v := range m {
		out[pop.KeyName(k[:])] = Watermark{Src: v.HighestAttestedSourceEpoch, Tgt: v.HighestAttestedTargetEpoch, Slot: v.HighestProposedSlot}
	}
	return out, nil
}

func covers(w Watermark, kind string, e *Entry) bool {
	switch kind {
	case "att", "atts":
		return w.Tgt >= 0 && uint64(w.Tgt) >= e.Tgt && w.Src >= 0 && uint64(w.Src) >= e.Src
	case "prop":
		return w.Slot >= 0 && uint64(w.Slot) >= e.PSlot
	}
	return true
}

// ledgerCovered checks that an export covers every signature released so far.
func ledgerCovered(rc *RunCtx, l *Ledger, ex map[string]Watermark, when string, step int) {
	ledgerCoveredAs(rc, "C03", "released-signature-not-recorded", l, ex, when, step)
}

// ledgerCoveredAs: every signature in the ledger is covered by the store's record of its key; reported under prop/vkey.
func ledgerCoveredAs(rc *RunCtx, prop, vkey string, l *Ledger, ex map[string]Watermark, when string, step int) {
	for key, atts := range l.Atts {
		w, ok := ex[key]
		for _, a := range atts {
			if !ok || w.Tgt < 0 || uint64(w.Tgt) < a.Tgt || w.Src < 0 || uint64(w.Src) < a.Src {
				rc.Violate(prop, vkey, fmt.Sprintf("%s: key %s released attestation (%d>%d) at step %d but the store says %v", when, key, a.Src, a.Tgt, a.Step, w), step)
				return
			}
		}
	}
	for key, props := range l.Props {
		w, ok := ex[key]
		for _, p := range props {
			if !ok || w.Slot < 0 || uint64(w.Slot) < p.Slot {
				rc.Violate(prop, vkey, fmt.Sprintf("%s: key %s released proposal at slot %d at step %d but the store says %v", when, key, p.Slot, p.Step, w), step)
				return
			}
		}
	}
}

type crashWorld struct {
	*concWorld
	g           *histGen
	mu          sync.Mutex
	pendingSign []pendingSign
	sigIndex    map[string]sigRef
	harvested   map[int]bool
	crashesLeft int
	crashDen    int
	storeOps    int
	snapAt      int
	snapDir     string
	snapInst    *Instance
	imageEvery  int
	signCount   int
	singleP     bool
	ackSet      bool
	ackSize     int64
	ackInst     *Instance
}

func vlogSize(dir string) int64 {
	var n int64
	ents, _ := os.ReadDir(dir)
	for _, e := range ents {
		if filepath.Ext(e.Name()) == ".vlog" {
			if fi, err := e.Info(); err == nil {
				n += fi.Size()
			}
		}
	}
	return n
}

type pendingSign struct {
	key  string
	root string
	inst *Instance
}

type sigRef struct {
	op *Op
	i  int
}

func (c *crashWorld) index(o *Op) {
	for i := range o.Entries {
		e := &o.Entries[i]
		root := SigningRoot(e.ObjectRoot(o.Kind), e.Domain)
		c.sigIndex[hex.EncodeToString(root)] = sigRef{op: o, i: i}
	}
}

func (c *crashWorld) attach(inst *Instance) {
	inst.OnSign = func(key string, root []byte) {
		c.mu.Lock()
		c.pendingSign = append(c.pendingSign, pendingSign{key: key, root: hex.EncodeToString(root), inst: inst})
		c.mu.Unlock()
	}
	inst.OnStoreDone = func(op string) {
		if op == "fetch" {
			return
		}
		c.mu.Lock()
		c.storeOps++
		take := c.storeOps == c.snapAt && c.snapDir == ""
		if c.singleP {
			// One stat call, on the goroutine whose storage call is returning, with GOMAXPROCS=1: no
			// other goroutine has run since the call decided to return.
			c.ackSize, c.ackInst, c.ackSet = vlogSize(inst.Cfg.Dir), inst, true
		}
		c.mu.Unlock()
		if take {
			// Synchronously, on the goroutine whose storage call is returning: what is on disk now
			// is what a kill at the instant of acknowledgement would leave behind.
			d := filepath.Join(ScratchRoot(), fmt.Sprintf("snap%d", dirCounter))
			dirCounter++
			if err := CopyDir(inst.Cfg.Dir, d); err == nil {
				c.mu.Lock()
				c.snapDir, c.snapInst = d, inst
				c.mu.Unlock()
			}
		}
	}
}

// invariant runs with everything parked after every step.
func (c *crashWorld) invariant(s *Sched) {
	rc := c.rc
	// Harvest completed requests into the ledger (M1, M2, M3) in completion order.
	for i, tk := range c.tasks {
		if tk.Done && !c.harvested[i] {
			c.harvested[i] = true
			if tk.Completed && c.res[i] != nil && !tk.Inst.Dead {
				rc.Logf("t%d %s -> %v", tk.ID, c.ops[i], c.res[i].States)
				Monitor(rc, c.ledger, c.pop, c.ops[i], c.res[i], s.Step, false)
			}
		}
	}
	// Ordering oracle at the Sign seam: when Sign is invoked the approval must already be recorded.
	c.mu.Lock()
	ps := c.pendingSign
	c.pendingSign = nil
	snap, snapInst := c.snapDir, c.snapInst
	if snap != "" {
		c.snapDir = "-"
	}
	ackSet, ackSize, ackInst := c.ackSet, c.ackSize, c.ackInst
	c.ackSet = false
	c.mu.Unlock()
	if ackSet && ackInst == c.inst && !ackInst.Dead {
		rc.Stats.Inc("ack_size_checks", 1)
		if now := vlogSize(c.inst.Cfg.Dir); now != ackSize {
			rc.Violate("C03", "write-after-acknowledgement", fmt.Sprintf("the value log was %d bytes when the storage call returned and grew to %d afterwards with no other request running: the write was acknowledged before it reached the file", ackSize, now), s.Step)
		}
	}
	for _, p := range ps {
		if p.inst.Dead || p.inst != c.inst {
			continue
		}
		ref, ok := c.sigIndex[p.root]
		if !ok {
			rc.Violate("C08", "signing-unknown-root", fmt.Sprintf("Sign invoked for key %s over a root no request asked for", p.key), s.Step)
			continue
		}
		e := &ref.op.Entries[ref.i]
		ex, err := c.inst.Export()
		if err != nil {
			continue
		}
		c.signCount++
		rc.Stats.Inc("sign_seam_checks", 1)
		if !covers(ex[p.key], ref.op.Kind, e) {
			rc.Violate("C03", "signing-before-recording", fmt.Sprintf("Sign invoked for %s position %d while the store says %v for key %s", ref.op, ref.i, ex[p.key], p.key), s.Step)
			continue
		}
		if c.imageEvery > 0 && c.signCount%c.imageEvery == 0 {
			img, err := exportOfImage(c.t, c.pop, c.inst.Cfg.Dir)
			rc.Stats.Inc("sign_seam_image_checks", 1)
			if err != nil {
				rc.Stats.Inc("image_open_failed", 1)
				continue
			}
			if !covers(img[p.key], ref.op.Kind, e) {
				rc.Violate("C03", "signing-before-durable", fmt.Sprintf("Sign invoked for %s position %d while a fresh process opening the directory sees %v for key %s", ref.op, ref.i, img[p.key], p.key), s.Step)
			}
		}
	}
	// Durability at acknowledgement: the image taken when the storage call returned must already
	// contain what the live store holds for every key (nothing else has run since).
	if snap != "" && snap != "-" {
		defer os.RemoveAll(snap)
		if snapInst == c.inst && !snapInst.Dead {
			live, err1 := c.inst.Export()
			img, err2 := exportOfImage(c.t, c.pop, snap)
			rc.Stats.Inc("ack_durability_checks", 1)
			if err1 == nil && err2 == nil {
				for k, w := range live {
					if img[k] != w {
						if !c.singleP {
							rc.Stats.Inc("ack_image_mismatch_multiP_unreported", 1)
							break
						}
						rc.Violate("C03", "acknowledged-write-not-on-disk", fmt.Sprintf("key %s: the storage call returned, the live store says %v, but the directory as it was at that instant holds %v", k, w, img[k]), s.Step)
						break
					}
				}
			} else if err2 != nil {
				rc.Stats.Inc("image_open_failed", 1)
			}
		}
	}
}

func readAll(dir string) map[string][]byte {
	out := map[string][]byte{}
	ents, _ := os.ReadDir(dir)
	for _, e := range ents {
		if e.IsDir() || e.Name() == "LOCK" {
			continue
		}
		b, _ := os.ReadFile(filepath.Join(dir, e.Name()))
		out[e.Name()] = b
	}
	return out
}

// crash kills the current incarnation and restarts on the surviving directory image.
// variant: 0 = image as it is now; 1 = torn (a drawn prefix of the bytes the chosen store operation
// appends); 2 = the store operation completed but nothing after it happened.
func (c *crashWorld) crash(s *Sched, storeThread *Park, variant int) bool {
	rc := c.rc
	old := c.inst
	img := NewRunDir(c.t)
	class := "exact"
	if storeThread == nil || variant == 0 {
		if err := CopyDir(old.Cfg.Dir, img); err != nil {
			c.t.Fatalf("copy: %v", err)
		}
	} else {
		before := readAll(old.Cfg.Dir)
		s.direct.Store(false)
		s.Step++
		rc.Logf("s%d run-through-store %s", s.Step, storeThread)
		s.note(storeThread, "crash-through")
		s.Release(storeThread, Resume{})
		s.Quiesce()
		s.direct.Store(true)
		after := readAll(old.Cfg.Dir)
		class = "after-write"
		for name, b := range after {
			a := before[name]
			out := b
			if variant == 1 && len(b) > len(a) && len(a) <= len(b) && string(b[:len(a)]) == string(a) {
				cut := len(a) + rc.Ch.Pick(len(b)-len(a)+1, 0)
				out = b[:cut]
				class = "torn"
				rc.Stats.Inc("probe_torn_bytes", int64(len(b)-cut))
			}
			if err := os.WriteFile(filepath.Join(img, name), out, 0o600); err != nil {
				c.t.Fatalf("write image: %v", err)
			}
		}
	}
	rc.Stats.Inc("crash_"+class, 1)
	rc.Logf("CRASH (%s) of %s at step %d", class, old.Name, s.Step)
	// Which in-flight state did the crash hit?  (reach probes)
	for _, p := range s.Parked() {
		if p.Task.Inst != old {
			continue
		}
		switch {
		case p.Kind == KPoint && p.Label != "fetch":
			rc.Stats.Inc("probe_crash_before_store", 1)
		case p.Kind == KRulesPost:
			rc.Stats.Inc("probe_crash_between_store_and_approval", 1)
		case p.Kind == KSign:
			rc.Stats.Inc("probe_crash_between_approval_and_signing", 1)
		case p.Kind == KPoint && p.Label == "fetch":
			rc.Stats.Inc("probe_crash_before_read", 1)
		case p.Kind == KLock:
			rc.Stats.Inc("probe_crash_waiting_for_lock", 1)
		}
	}
	old.Dead = true
	s.direct.Store(false)
	s.AbortInstance(old)
	s.direct.Store(true)
	for i, tk := range c.tasks {
		if tk.Inst == old {
			c.harvested[i] = true
		}
	}
	old.Close()
	cfg := old.Cfg
	cfg.Dir = img
	c.incarnation++
	cfg.PeriodicPruning = c.pruning
	inst, err := BootInstance(s, fmt.Sprintf("i%d", c.incarnation), cfg)
	if err != nil {
		// Dirk refuses to start (e.g. badger rejects a torn tail because truncation is off): it signs
		// nothing, which is safe.  The run ends here.
		rc.Stats.Inc("restart_open_failed", 1)
		rc.Logf("restart refused: %v", err)
		c.inst = nil
		return true
	}
	c.inst = inst
	c.attach(inst)
	if inst.Rules.VerifStore().VerifSyncWrites() {
		rc.Stats.Inc("stores_opened_with_sync_writes_option", 1)
	} else {
		rc.Stats.Inc("stores_opened_without_sync_writes_option", 1)
	}
	ex, err := inst.Export()
	if err != nil {
		rc.Violate("C03", "export-after-restart-failed", err.Error(), s.Step)
		return true
	}
	ledgerCovered(rc, c.ledger, ex, "after crash restart", s.Step)
	return true
}

func runCrash(t *testing.T, rc *RunCtx) {
	ch := rc.Ch
	nKeys := 1 + ch.Pick(3, 0)
	phases := 1 + ch.Pick(4, 0)
	c := &crashWorld{sigIndex: map[string]sigRef{}, harvested: map[int]bool{}}
	c.crashesLeft = 1 + ch.Pick(3, 0)
	c.crashDen = []int{5, 10, 20}[ch.Pick(3, 0)]
	c.snapAt = 1 + ch.Pick(8, 0)
	c.imageEvery = []int{0, 2, 4}[ch.Pick(3, 0)]
	if rc.Tier == "thorough" {
		c.imageEvery = 1 + ch.Pick(3, 0)
	}
	procs := []int{1, 1, 4, 16}[ch.Pick(4, 0)]
	c.singleP = procs == 1
	prev := runtime.GOMAXPROCS(procs)
	defer runtime.GOMAXPROCS(prev)
	cfg := SchedCfg{StayBias: []float64{0, 0.4, 0.8}[ch.Pick(3, 0)], MaxSteps: 4000, StopOnViolation: true}
	// A quarter of the runs: storage reads and writes fail now and then (a request that meets a failure may fail;
	// nothing it leaves behind may weaken what a later incarnation knows about signatures already released).
	if ch.Pick(4, 0) == 3 {
		den := []int{6, 12, 24}[ch.Pick(3, 0)]
		cfg.Fault = func(s *Sched, p *Park) Resume {
			if p.Kind == KPoint && ch.Chance(1, den) {
				rc.Stats.Inc("fault_store-"+p.Label, 1)
				return Resume{Err: ErrInjected, Fault: "store-" + p.Label}
			}
			return Resume{}
		}
		rc.Stats.Inc("runs_with_transient_storage_errors", 1)
	}
	cfg.Invariant = func(s *Sched) {
		if c.inst != nil {
			c.invariant(s)
		}
	}
	cfg.PreStep = func(s *Sched, parked []*Park) bool {
		if c.crashesLeft == 0 || c.inst == nil {
			return false
		}
		var inflight, stores []*Park
		for _, p := range parked {
			if p.Task.Inst != c.inst || p.Kind == KStart {
				continue
			}
			inflight = append(inflight, p)
			if p.Kind == KPoint && p.Label != "fetch" {
				stores = append(stores, p)
			}
		}
		if len(inflight) == 0 {
			return false
		}
		// Bias crashes towards the windows that matter: a thread about to write, one that has written
		// but not yet been approved, one that has been approved but has not signed yet.
		hot := false
		for _, p := range inflight {
			if (p.Kind == KPoint && p.Label != "fetch") || p.Kind == KRulesPost || p.Kind == KSign {
				hot = true
			}
		}
		if hot {
			if !ch.Chance(1, 4) {
				return false
			}
		} else if !ch.Chance(1, 4*c.crashDen) {
			return false
		}
		c.crashesLeft--
		var st *Park
		variant := 0
		if len(stores) > 0 {
			st = stores[ch.Pick(len(stores), 0)]
			variant = ch.Pick(3, 0)
		}
		return c.crash(s, st, variant)
	}
	c.concWorld = newW1(t, rc, cfg, nil)
	defer func() {
		c.s.AbortBackground(nil)
		if c.inst != nil {
			c.inst.Close()
		}
		c.s.Close()
	}()
	c.pruning = ch.Pick(2, 0) == 1
	c.attach(c.inst)
	// Reported, not asserted: how durability is achieved (an engine option, explicit syncs) is the
	// implementation's choice; the power-loss layer decides the property behaviourally.
	if c.inst.Rules.VerifStore().VerifSyncWrites() {
		rc.Stats.Inc("stores_opened_with_sync_writes_option", 1)
	} else {
		rc.Stats.Inc("stores_opened_without_sync_writes_option", 1)
	}
	c.g = &histGen{rc: rc, ledger: c.ledger, pop: c.pop, nKeys: nKeys}
	var desc []string
	for ph := 0; ph < phases && c.inst != nil && len(rc.Viol) == 0; ph++ {
		k := 1 + ch.Pick(5, 0)
		ops := make([]*Op, k)
		for i := range ops {
			if ch.Pick(4, 0) == 3 {
				ops[i] = c.g.op("C02")
			} else {
				ops[i] = c.g.op("C01")
			}
			c.index(ops[i])
			desc = append(desc, ops[i].String())
		}
		desc = append(desc, "||")
		c.submit(ops)
		out := c.s.Run()
		if out == "truncated" {
			return
		}
		if c.inst != nil && len(rc.Viol) == 0 {
			c.s.Direct(func() { c.invariant(c.s) })
		}
		// Occasionally a clean restart between phases.
		if c.inst != nil && ch.Pick(5, 0) == 4 {
			c.restart(false)
			c.attach(c.inst)
			var ex map[string]Watermark
			var err error
			c.s.Direct(func() { ex, err = c.inst.Export() })
			if err == nil {
				ledgerCovered(rc, c.ledger, ex, "after clean restart", c.s.Step)
			}
			desc = append(desc, "RESTART")
		}
	}
	// Final: an image of the directory as it is now must cover the ledger (kill at the very end).
	if c.inst != nil && len(rc.Viol) == 0 {
		c.s.Direct(func() {
			img, err := exportOfImage(t, c.pop, c.inst.Cfg.Dir)
			if err != nil {
				rc.Stats.Inc("image_open_failed", 1)
				return
			}
			ledgerCovered(rc, c.ledger, img, "image after the last response", c.s.Step)
		})
	}
	crashes := int(rc.Stats.Counters["crash_exact"] + rc.Stats.Counters["crash_torn"] + rc.Stats.Counters["crash_after-write"])
	if crashes > 0 || c.ledger.N > 0 {
		rc.Stats.Seen("cases", c.s.ScheduleSignature()+hexShort(h32(desc)))
	}
	rc.Stats.Seen("schedules", c.s.ScheduleSignature())
	if len(desc) > 30 {
		desc = append(desc[:30], "...")
	}
	rc.Sample = map[string]any{"keys": nKeys, "phases": phases, "crashes": crashes, "history": desc, "released": c.ledger.N, "steps": c.s.Step, "gomaxprocs": procs}
}

func init() {
	propRunners["C03"] = runCrash
}
