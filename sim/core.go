// Package sim is the deterministic simulator for attestantio/dirk.
//
// One integer (VERIF_SEED-derived run seed) decides everything in a run: workload, schedule,
// faults, crashes, clock jumps and configuration knobs.  Every decision goes through Choice.Pick
// and is appended to the run's choice vector; replaying the vector reproduces the run.
package sim

import (
	"encoding/json"
	"fmt"
	"math/rand/v2"
	"sort"
	"strings"
)

// Choice is the single source of decisions for a run.
type Choice struct {
	rng    *rand.Rand // nil in replay mode
	replay []uint32   // replay mode: recorded decisions
	pos    int
	Vector []uint32 // decisions taken so far (both modes)
	over   bool     // replay vector exhausted at least once
}

// NewSeedChoice creates a choice source backed by a PCG stream.
func NewSeedChoice(seed uint64) *Choice {
	return &Choice{rng: rand.New(rand.NewPCG(seed, 0x9e3779b97f4a7c15^seed<<1))}
}

// NewReplayChoice creates a choice source that replays a recorded vector.
// When the vector is exhausted every further decision is 0, which by convention is the
// "simplest" alternative: first thread in canonical order, no fault, no crash, smallest value.
func NewReplayChoice(vec []uint32) *Choice {
	return &Choice{replay: vec}
}

// Pick returns a decision in [0,n).  zeroBias in [0,1) is the probability (seed mode only) that
// the answer is forced to 0; the remaining mass is uniform over [0,n).
func (c *Choice) Pick(n int, zeroBias float64) int {
	if n <= 1 {
		return 0
	}
	var v int
	if c.rng != nil {
		if zeroBias > 0 && c.rng.Float64() < zeroBias {
			v = 0
		} else {
			v = c.rng.IntN(n)
		}
	} else {
		if c.pos < len(c.replay) {
			v = int(c.replay[c.pos] % uint32(n))
			c.pos++
		} else {
			c.over = true
			v = 0
		}
	}
	c.Vector = append(c.Vector, uint32(v))
	return v
}

// Chance is true with probability num/den (seed mode); decision 0 means false.
func (c *Choice) Chance(num, den int) bool {
	if num <= 0 {
		return false
	}
	return c.Pick(den, 0) >= den-num
}

// U64 draws a 64-bit value as two decisions (kept small-friendly for shrinking).
func (c *Choice) U64() uint64 {
	hi := uint64(c.Pick(1<<31, 0))
	lo := uint64(c.Pick(1<<31, 0))
	return hi<<33 ^ lo<<2 ^ uint64(c.Pick(4, 0))
}

// Violation is one property violation found in a run.
type Violation struct {
	Property string `json:"property"`
	// Key is the canonical class of the violation: what minimisation preserves and what the
	// known-findings file matches on.
	Key    string `json:"key"`
	Detail string `json:"detail"`
	Step   int    `json:"step"`
}

// Stats are the counters one run (and, summed, one worker) reports.
type Stats struct {
	Counters map[string]int64 `json:"counters"`
	// Distinct collects hashes/short strings per measure; only cardinalities are reported.
	Distinct map[string]map[string]struct{} `json:"-"`
}

// NewStats creates empty stats.
func NewStats() *Stats {
	return &Stats{Counters: map[string]int64{}, Distinct: map[string]map[string]struct{}{}}
}

// Inc adds to a counter.
func (s *Stats) Inc(name string, d int64) { s.Counters[name] += d }

// Seen records a distinct item under a measure.
func (s *Stats) Seen(measure, item string) {
	m := s.Distinct[measure]
	if m == nil {
		m = map[string]struct{}{}
		s.Distinct[measure] = m
	}
	if len(m) < 200000 {
		m[item] = struct{}{}
	}
}

// Merge adds other into s.
func (s *Stats) Merge(o *Stats) {
	for k, v := range o.Counters {
		s.Counters[k] += v
	}
	for k, m := range o.Distinct {
		for it := range m {
			s.Seen(k, it)
		}
	}
}

// RunCtx is the state of one simulated run.
type RunCtx struct {
	Property string
	Tier     string
	Seed     uint64
	Ch       *Choice
	Stats    *Stats
	Trace    []string // human-readable canonical event log
	Viol     []Violation
	// Sample is a compact description of the run's workload, for evidence samples.
	Sample    map[string]any
	Truncated bool
	Params    map[string]string
	// Local is per-run scratch state of the generators (never shared between runs).
	Local map[string]string
}

// Logf appends to the canonical event log.  It never draws and never reads a clock.
func (rc *RunCtx) Logf(format string, a ...any) {
	if len(rc.Trace) < 4000 {
		rc.Trace = append(rc.Trace, fmt.Sprintf(format, a...))
	}
}

// Violate records a violation.
func (rc *RunCtx) Violate(prop, key, detail string, step int) {
	rc.Viol = append(rc.Viol, Violation{Property: prop, Key: key, Detail: detail, Step: step})
	rc.Logf("VIOLATION %s key=%s %s", prop, key, detail)
}

// Param reads a run parameter.
func (rc *RunCtx) Param(name, def string) string {
	if v, ok := rc.Params[name]; ok {
		return v
	}
	return def
}

// ReplayFile is the on-disk replay artefact.
type ReplayFile struct {
	Property  string            `json:"property"`
	Tier      string            `json:"tier"`
	Seed      uint64            `json:"seed"`
	Params    map[string]string `json:"params,omitempty"`
	Vector    []uint32          `json:"choice_vector"`
	Violation Violation         `json:"violation"`
	Trace     []string          `json:"trace"`
	Minimised bool              `json:"minimised"`
	OrigLen   int               `json:"original_vector_length"`
	Note      string            `json:"note,omitempty"`
	// HistoryFrom is the first seed the finding process ran (seeds are consecutive up to Seed).  History, when
	// set, lists seeds to run in the replaying process before Seed: for violations that depend on state the
	// code under test keeps for the life of the process (package-level caches, pools), which one run in a fresh
	// process does not have.
	HistoryFrom *uint64  `json:"history_from,omitempty"`
	History     []uint64 `json:"history_seeds,omitempty"`
}

// JSON renders v.
func JSON(v any) string {
	b, _ := json.Marshal(v)
	return string(b)
}

func sortedKeys[V any](m map[string]V) []string {
	ks := make([]string, 0, len(m))
	for k := range m {
		ks = append(ks, k)
	}
	sort.Strings(ks)
	return ks
}

func hexShort(b []byte) string {
	const hexd = "0123456789abcdef"
	n := len(b)
	if n > 6 {
		n = 6
	}
	var sb strings.Builder
	for i := 0; i < n; i++ {
		sb.WriteByte(hexd[b[i]>>4])
		sb.WriteByte(hexd[b[i]&15])
	}
	return sb.String()
}
