package sim

import (
	"context"
	"crypto/ecdsa"
	"crypto/elliptic"
	"crypto/rand"
	"crypto/rsa"
	"crypto/tls"
	"crypto/x509"
	"crypto/x509/pkix"
	"encoding/pem"
	"fmt"
	"math/big"
	"net"
	"net/url"
	"os"
	"path/filepath"
	"runtime"
	"strconv"
	"strings"
	"sync"
	"sync/atomic"
	"testing"
	"time"

	grpcapi "github.com/attestantio/dirk/services/api/grpc"
	"github.com/attestantio/dirk/services/checker"
	"github.com/attestantio/dirk/testing/resources"
	pb "github.com/wealdtech/eth2-signer-api/pb/v1"
	"google.golang.org/grpc"
	"google.golang.org/grpc/codes"
	"google.golang.org/grpc/credentials"
	"google.golang.org/grpc/credentials/insecure"
	"google.golang.org/grpc/metadata"
	"google.golang.org/grpc/status"
	"google.golang.org/protobuf/proto"
)

// W5: a real daemon edge (gRPC + TLS + interceptors + handlers + services) on a loopback port.

type tlsServer struct {
	addr string
	c    *Cluster
	node *Node
}

type tlsWorld struct {
	withCA, noCA *tlsServer
	bundled      *tlsServer // authority configured; the server certificate file also carries the certificate of a foreign authority
	peerEdge     *tlsServer // its peers are named like the repository's signer certificates
	otherCA      *x509.Certificate
	otherCAKey   *ecdsa.PrivateKey
	sysCA        *x509.Certificate
	sysCAKey     *ecdsa.PrivateKey
	rc           *RunCtx
}

var (
	tlsOnce sync.Once
	tlsW    *tlsWorld
)

func mkCA(cn string) (*x509.Certificate, *ecdsa.PrivateKey, []byte) {
	key, _ := ecdsa.GenerateKey(elliptic.P256(), rand.Reader)
	tpl := &x509.Certificate{SerialNumber: big.NewInt(time.Now().UnixNano()), Subject: pkix.Name{CommonName: cn}, NotBefore: time.Now().Add(-time.Hour), NotAfter: time.Now().Add(24 * time.Hour),
		IsCA: true, BasicConstraintsValid: true, KeyUsage: x509.KeyUsageCertSign | x509.KeyUsageDigitalSignature}
	der, err := x509.CreateCertificate(rand.Reader, tpl, tpl, &key.PublicKey, key)
	if err != nil {
		panic(err)
	}
	c, _ := x509.ParseCertificate(der)
	return c, key, pem.EncodeToMemory(&pem.Block{Type: "CERTIFICATE", Bytes: der})
}

func mkLeaf(cn string, parent *x509.Certificate, parentKey any, isCA bool) tls.Certificate {
	key, _ := ecdsa.GenerateKey(elliptic.P256(), rand.Reader)
	tpl := &x509.Certificate{SerialNumber: big.NewInt(time.Now().UnixNano()), Subject: pkix.Name{CommonName: cn}, DNSNames: []string{cn}, NotBefore: time.Now().Add(-time.Hour), NotAfter: time.Now().Add(24 * time.Hour),
		KeyUsage: x509.KeyUsageDigitalSignature, ExtKeyUsage: []x509.ExtKeyUsage{x509.ExtKeyUsageClientAuth, x509.ExtKeyUsageServerAuth}, IsCA: isCA, BasicConstraintsValid: isCA}
	if isCA {
		tpl.KeyUsage |= x509.KeyUsageCertSign
	}
	if parent == nil {
		parent, parentKey = tpl, key
	}
	der, err := x509.CreateCertificate(rand.Reader, tpl, parent, &key.PublicKey, parentKey)
	if err != nil {
		panic(err)
	}
	return tls.Certificate{Certificate: [][]byte{der}, PrivateKey: key}
}

func freePort() int {
	l, err := net.Listen("tcp", "127.0.0.1:0")
	if err != nil {
		panic(err)
	}
	defer l.Close()
	return l.Addr().(*net.TCPAddr).Port
}

func (w *tlsWorld) startServer(t *testing.T, rc *RunCtx, caCert []byte, nameFmt ...string) *tlsServer {
	return w.startServerWith(t, rc, caCert, append(nameFmt, "")[0], nil)
}

func (w *tlsWorld) startServerWith(t *testing.T, rc *RunCtx, caCert []byte, nf string, adminIPs []string) *tlsServer {
	return w.startServerCert(t, rc, caCert, nf, adminIPs, resources.SignerTest01Crt)
}

// startServerPop starts an edge in front of an instance that holds a ready-made population.
func (w *tlsWorld) startServerPop(t *testing.T, rc *RunCtx, perms map[string][]*checker.Permissions, pop *Population) *tlsServer {
	return w.startServerFull(t, rc, resources.CACrt, "", nil, resources.SignerTest01Crt, perms, pop)
}

func (w *tlsWorld) startServerCert(t *testing.T, rc *RunCtx, caCert []byte, nf string, adminIPs []string, serverCert []byte) *tlsServer {
	return w.startServerFull(t, rc, caCert, nf, adminIPs, serverCert, nil, nil)
}

func (w *tlsWorld) startServerFull(t *testing.T, rc *RunCtx, caCert []byte, nf string, adminIPs []string, serverCert []byte, permsOverride map[string][]*checker.Permissions, pop *Population) *tlsServer {
	s := NewSched(rc, SchedCfg{})
	perms := map[string][]*checker.Permissions{
		"client-test01": {{Path: "Wallet 1", Operations: []string{"All"}}, {Path: "Wallet 3", Operations: []string{"All"}}},
		"client-test02": {{Path: "Wallet 2", Operations: []string{"All"}}},
		"client-test03": {{Path: "Nowhere", Operations: []string{"All"}}},
	}
	w1 := WalletSpec{Name: "Wallet 1", Kind: "nd", Accounts: []string{"Account 0", "Account 1"}}
	w2 := WalletSpec{Name: "Wallet 2", Kind: "nd", Accounts: []string{"Account 0", "Account 1"}}
	ccfg := ClusterCfg{IDs: []uint64{1, 2, 3}, Perms: perms, NameFmt: nf, AdminIPs: adminIPs, Specs: []WalletSpec{w1, w2, {Name: "Wallet 3", Kind: "distributed"}}}
	if permsOverride != nil {
		ccfg.Perms = permsOverride
	}
	if pop != nil {
		ccfg.Pops = []*Population{pop}
	}
	// every peer table also lists a peer by address - the loopback address the callers of these layers come from
	ccfg.ExtraPeers = map[uint64]string{8: "127.0.0.1:9108"}
	c := NewCluster(t, rc, s, ccfg)
	// Peer names as in the repository's test certificates.
	n := c.Nodes[0]
	var port int
	var err error
	// Another process may take the port between its selection and the server's own listen: try again.
	for attempt := 0; attempt < 8; attempt++ {
		port = freePort()
		_, err = grpcapi.New(context.Background(),
			grpcapi.WithSigner(n.Inst.Signer), grpcapi.WithLister(n.Inst.Lister), grpcapi.WithProcess(n.Inst.Process),
			grpcapi.WithAccountManager(n.Inst.AcctMgr), grpcapi.WithWalletManager(n.Inst.WalletMgr), grpcapi.WithPeers(n.Peers),
			grpcapi.WithName("signer-test01"), grpcapi.WithID(1),
			grpcapi.WithServerCert(serverCert), grpcapi.WithServerKey(resources.SignerTest01Key), grpcapi.WithCACert(caCert),
			grpcapi.WithListenAddress(fmt.Sprintf("127.0.0.1:%d", port)))
		if err == nil {
			break
		}
	}
	if err != nil {
		t.Fatalf("grpc api: %v", err)
	}
	return &tlsServer{addr: fmt.Sprintf("127.0.0.1:%d", port), c: c, node: n}
}

func getTLSWorld(t *testing.T, rc *RunCtx) *tlsWorld {
	tlsOnce.Do(func() {
		w := &tlsWorld{}
		var otherPEM, sysPEM []byte
		w.otherCA, w.otherCAKey, otherPEM = mkCA("Some other authority")
		w.sysCA, w.sysCAKey, sysPEM = mkCA("An authority in the host trust store")
		// Put one foreign authority into the host's trust store (read lazily by crypto/x509).
		bundle := filepath.Join(ScratchRoot(), "system-roots.pem")
		if err := os.WriteFile(bundle, sysPEM, 0o600); err != nil {
			t.Fatalf("bundle: %v", err)
		}
		os.Setenv("SSL_CERT_FILE", bundle)
		os.Setenv("SSL_CERT_DIR", filepath.Join(ScratchRoot(), "no-such-dir"))
		setupRC := &RunCtx{Property: "C19", Ch: NewSeedChoice(1), Stats: NewStats()}
		w.withCA = w.startServer(t, setupRC, resources.CACrt)
		w.noCA = w.startServer(t, setupRC, nil)
		w.peerEdge = w.startServer(t, setupRC, resources.CACrt, "signer-test%02d")
		// A server certificate file that is a bundle: the leaf followed by the certificate of the foreign authority
		// (an operator who bought the server certificate elsewhere and pasted its chain).  What rides along in that
		// file says nothing about whose client certificates are honoured.
		w.bundled = w.startServerCert(t, setupRC, resources.CACrt, "", nil, append(append(append([]byte{}, resources.SignerTest01Crt...), '\n'), otherPEM...))
		tlsW = w
	})
	return tlsW
}

var tlsCredKinds = []string{"plaintext", "tls-no-client-cert", "self-signed-permitted-name", "other-authority-permitted-name", "host-trust-store-authority-permitted-name",
	"intermediate-of-configured-authority", "valid-unpermitted-client", "valid-client-test01", "valid-client-test02", "valid-peer-signer-test02",
	"valid-client-test02-followed-by-forged-client-test01", "valid-unpermitted-client-followed-by-forged-client-test01",
	"self-signed-permitted-name-followed-by-genuine-client-certificate",
	"self-made-authority-flagged-permitted-name", "self-made-authority-flagged-permitted-name-followed-by-genuine-client-certificate",
	"self-made-authority-flagged-permitted-name-followed-by-configured-authority-certificate",
	// Certificates the configured authority really issued (its key is among the repository's test resources), whose
	// subject is one client and whose other name-bearing fields mention another: the identity is the subject.
	"issued-subject-client-test02-alt-names-client-test01-and-own", "issued-subject-client-test03-alt-name-client-test01",
	"issued-subject-client-test02-alt-name-client-test01-only", "issued-subject-client-test03-organisation-and-unit-client-test01",
	"issued-subject-client-test03-email-and-uri-client-test01", "issued-empty-subject-alt-name-client-test01",
	// the subject is a permitted client's name in another case (names are compared as written), and a certificate without a
	// subject name followed in the chain by a self-made certificate that bears one
	"issued-subject-CLIENT-TEST01-in-upper-case", "issued-empty-subject-followed-by-self-made-client-test01"}

// issuedIdentity is the subject name of the "issued-..." credentials.
var issuedIdentity = map[string]string{
	"issued-subject-client-test02-alt-names-client-test01-and-own":     "client-test02",
	"issued-subject-client-test03-alt-name-client-test01":              "client-test03",
	"issued-subject-client-test02-alt-name-client-test01-only":         "client-test02",
	"issued-subject-client-test03-organisation-and-unit-client-test01": "client-test03",
	"issued-subject-client-test03-email-and-uri-client-test01":         "client-test03",
	"issued-empty-subject-alt-name-client-test01":                      "",
	"issued-subject-CLIENT-TEST01-in-upper-case":                       "CLIENT-TEST01",
	"issued-empty-subject-followed-by-self-made-client-test01":         "",
	"issued-subject-client-test01-alt-name-signer-test02":              "client-test01",
	"issued-subject-client-test03-alt-names-signer-test02-and-own":     "client-test03",
}

var (
	repoCAOnce sync.Once
	repoCA     *x509.Certificate
	repoCAKey  any
	repoCAErr  error
)

// repoAuthority loads the key of the repository's testing authority (the one the servers are configured with).
func repoAuthority() (*x509.Certificate, any, error) {
	repoCAOnce.Do(func() {
		blk, _ := pem.Decode(resources.CACrt)
		if blk == nil {
			repoCAErr = fmt.Errorf("no authority certificate in the test resources")
			return
		}
		repoCA, repoCAErr = x509.ParseCertificate(blk.Bytes)
		if repoCAErr != nil {
			return
		}
		repo := os.Getenv("VERIF_REPO")
		if repo == "" {
			repo = "/repo"
		}
		raw, err := os.ReadFile(filepath.Join(repo, "testing", "resources", "Testing_certificate_authority.key"))
		if err != nil {
			repoCAErr = err
			return
		}
		kb, _ := pem.Decode(raw)
		if kb == nil {
			repoCAErr = fmt.Errorf("authority key is not PEM")
			return
		}
		if k, err := x509.ParsePKCS1PrivateKey(kb.Bytes); err == nil {
			repoCAKey = k
		} else if k, err := x509.ParsePKCS8PrivateKey(kb.Bytes); err == nil {
			repoCAKey = k
		} else {
			repoCAErr = err
		}
	})
	return repoCA, repoCAKey, repoCAErr
}

// mkIssued issues a client certificate from the repository's testing authority.
func mkIssued(cred string) (tls.Certificate, error) {
	ca, caKey, err := repoAuthority()
	if err != nil {
		return tls.Certificate{}, err
	}
	key, _ := ecdsa.GenerateKey(elliptic.P256(), rand.Reader)
	tpl := &x509.Certificate{SerialNumber: big.NewInt(time.Now().UnixNano()), Subject: pkix.Name{CommonName: issuedIdentity[cred]}, NotBefore: time.Now().Add(-time.Hour), NotAfter: time.Now().Add(24 * time.Hour),
		KeyUsage: x509.KeyUsageDigitalSignature, ExtKeyUsage: []x509.ExtKeyUsage{x509.ExtKeyUsageClientAuth}}
	switch cred {
	case "issued-subject-client-test02-alt-names-client-test01-and-own":
		tpl.DNSNames = []string{"client-test01", "client-test02"}
	case "issued-subject-client-test03-alt-name-client-test01", "issued-subject-client-test02-alt-name-client-test01-only", "issued-empty-subject-alt-name-client-test01":
		tpl.DNSNames = []string{"client-test01"}
	case "issued-subject-client-test03-organisation-and-unit-client-test01":
		tpl.Subject.Organization, tpl.Subject.OrganizationalUnit, tpl.Subject.SerialNumber = []string{"client-test01"}, []string{"client-test01"}, "client-test01"
		tpl.DNSNames = []string{"client-test03"}
	case "issued-subject-client-test03-email-and-uri-client-test01":
		tpl.EmailAddresses = []string{"client-test01"}
		if u, err := url.Parse("spiffe://client-test01"); err == nil {
			tpl.URIs = []*url.URL{u}
		}
	case "issued-subject-client-test01-alt-name-signer-test02":
		tpl.DNSNames = []string{"signer-test02"}
	case "issued-subject-client-test03-alt-names-signer-test02-and-own":
		tpl.DNSNames = []string{"signer-test02", "client-test03"}
	}
	der, err := x509.CreateCertificate(rand.Reader, tpl, ca, &key.PublicKey, caKey)
	if err != nil {
		return tls.Certificate{}, err
	}
	return tls.Certificate{Certificate: [][]byte{der}, PrivateKey: key}, nil
}

func (w *tlsWorld) dial(srv *tlsServer, cred string) (*grpc.ClientConn, error) {
	pool := x509.NewCertPool()
	pool.AppendCertsFromPEM(resources.CACrt)
	cfg := &tls.Config{RootCAs: pool, ServerName: "signer-test01", MinVersion: tls.VersionTLS13}
	pair := func(crt, key []byte) tls.Certificate {
		c, err := tls.X509KeyPair(crt, key)
		if err != nil {
			panic(err)
		}
		return c
	}
	if _, ok := issuedIdentity[cred]; ok {
		c, err := mkIssued(cred)
		if err != nil {
			return nil, fmt.Errorf("issuing %s: %w", cred, err)
		}
		if strings.HasSuffix(cred, "-followed-by-self-made-client-test01") {
			c.Certificate = append(c.Certificate, mkLeaf("client-test01", nil, nil, false).Certificate[0])
		}
		cfg.Certificates = []tls.Certificate{c}
	}
	switch cred {
	case "plaintext":
		return grpc.NewClient(srv.addr, grpc.WithTransportCredentials(insecure.NewCredentials()))
	case "tls-no-client-cert":
	case "self-signed-permitted-name":
		cfg.Certificates = []tls.Certificate{mkLeaf("client-test01", nil, nil, false)}
	case "other-authority-permitted-name":
		cfg.Certificates = []tls.Certificate{mkLeaf("client-test01", w.otherCA, w.otherCAKey, false)}
	case "host-trust-store-authority-permitted-name":
		cfg.Certificates = []tls.Certificate{mkLeaf("client-test01", w.sysCA, w.sysCAKey, false)}
	case "intermediate-of-configured-authority":
		// A valid client certificate used as if it were an authority (the configured authority forbids intermediates).
		mid := pair(resources.ClientTest03Crt, resources.ClientTest03Key)
		midCert, _ := x509.ParseCertificate(mid.Certificate[0])
		leaf := mkLeaf("client-test01", midCert, mid.PrivateKey.(*rsa.PrivateKey), false)
		leaf.Certificate = append(leaf.Certificate, mid.Certificate[0])
		cfg.Certificates = []tls.Certificate{leaf}
	case "valid-unpermitted-client":
		cfg.Certificates = []tls.Certificate{pair(resources.ClientTest03Crt, resources.ClientTest03Key)}
	case "valid-client-test01":
		cfg.Certificates = []tls.Certificate{pair(resources.ClientTest01Crt, resources.ClientTest01Key)}
	case "valid-client-test02":
		cfg.Certificates = []tls.Certificate{pair(resources.ClientTest02Crt, resources.ClientTest02Key)}
	case "valid-peer-signer-test02":
		cfg.Certificates = []tls.Certificate{pair(resources.SignerTest02Crt, resources.SignerTest02Key)}
	case "self-signed-permitted-name-followed-by-genuine-client-certificate":
		// The caller proves possession of a self-made key only; a genuine client's PUBLIC certificate rides along.
		forged := mkLeaf("client-test01", nil, nil, false)
		genuine := pair(resources.ClientTest02Crt, resources.ClientTest02Key)
		forged.Certificate = append(forged.Certificate, genuine.Certificate[0])
		cfg.Certificates = []tls.Certificate{forged}
	case "self-made-authority-flagged-permitted-name":
		cfg.Certificates = []tls.Certificate{mkLeaf("client-test01", nil, nil, true)}
	case "self-made-authority-flagged-permitted-name-followed-by-genuine-client-certificate", "self-made-authority-flagged-permitted-name-followed-by-configured-authority-certificate":
		// The caller proves possession of a self-made key whose certificate claims to be an authority; a genuine
		// PUBLIC certificate rides along behind it.
		forged := mkLeaf("client-test01", nil, nil, true)
		if cred == "self-made-authority-flagged-permitted-name-followed-by-genuine-client-certificate" {
			genuine := pair(resources.ClientTest02Crt, resources.ClientTest02Key)
			forged.Certificate = append(forged.Certificate, genuine.Certificate[0])
		} else if blk, _ := pem.Decode(resources.CACrt); blk != nil {
			forged.Certificate = append(forged.Certificate, blk.Bytes)
		}
		cfg.Certificates = []tls.Certificate{forged}
	case "valid-peer-signer-test03":
		cfg.Certificates = []tls.Certificate{pair(resources.SignerTest03Crt, resources.SignerTest03Key)}
	case "self-signed-peer-name":
		cfg.Certificates = []tls.Certificate{mkLeaf("signer-test02", nil, nil, false)}
	case "host-trust-store-authority-peer-name":
		cfg.Certificates = []tls.Certificate{mkLeaf("signer-test02", w.sysCA, w.sysCAKey, false)}
	case "other-authority-peer-name":
		cfg.Certificates = []tls.Certificate{mkLeaf("signer-test02", w.otherCA, w.otherCAKey, false)}
	case "valid-client-test01-followed-by-public-certificate-of-peer", "valid-unpermitted-client-followed-by-public-certificate-of-peer":
		// A genuine CLIENT certificate; a peer's PUBLIC certificate (no key is proven for it) rides along in the chain.
		c := pair(resources.ClientTest01Crt, resources.ClientTest01Key)
		if cred == "valid-unpermitted-client-followed-by-public-certificate-of-peer" {
			c = pair(resources.ClientTest03Crt, resources.ClientTest03Key)
		}
		peer := pair(resources.SignerTest02Crt, resources.SignerTest02Key)
		c.Certificate = append(c.Certificate, peer.Certificate[0])
		cfg.Certificates = []tls.Certificate{c}
	case "self-signed-peer-name-followed-by-public-certificate-of-peer":
		forged := mkLeaf("signer-test02", nil, nil, false)
		peer := pair(resources.SignerTest02Crt, resources.SignerTest02Key)
		forged.Certificate = append(forged.Certificate, peer.Certificate[0])
		cfg.Certificates = []tls.Certificate{forged}
	case "valid-client-test02-followed-by-forged-client-test01", "valid-unpermitted-client-followed-by-forged-client-test01":
		// A genuine certificate with a self-made extra certificate bearing a permitted name appended to the chain.
		c := pair(resources.ClientTest02Crt, resources.ClientTest02Key)
		if cred == "valid-unpermitted-client-followed-by-forged-client-test01" {
			c = pair(resources.ClientTest03Crt, resources.ClientTest03Key)
		}
		forged := mkLeaf("client-test01", nil, nil, false)
		c.Certificate = append(c.Certificate, forged.Certificate[0])
		cfg.Certificates = []tls.Certificate{c}
	}
	return grpc.NewClient(srv.addr, grpc.WithTransportCredentials(credentials.NewTLS(cfg)))
}

type tlsMethod struct {
	Name string
	// call issues the RPC with a payload that would succeed for a permitted client of the given wallet;
	// it returns the response message (nil if none was obtained) and a summary of what was disclosed or done.
	call func(ctx context.Context, cc *grpc.ClientConn, wallet string, uniq uint64) (proto.Message, string, error)
}

func signSummary(state pb.ResponseState, sig []byte) string {
	if len(sig) > 0 {
		return "SIGNATURE"
	}
	return state.String()
}

func tlsMethods() []tlsMethod {
	acct := func(w string) string { return w + "/Account 0" }
	return []tlsMethod{
		{"Lister.ListAccounts", func(ctx context.Context, cc *grpc.ClientConn, w string, _ uint64) (proto.Message, string, error) {
			r, err := pb.NewListerClient(cc).ListAccounts(ctx, &pb.ListAccountsRequest{Paths: []string{w}})
			if err != nil {
				return nil, "", err
			}
			if len(r.GetAccounts())+len(r.GetDistributedAccounts()) > 0 {
				return r, "ACCOUNTS", nil
			}
			return r, "no accounts", nil
		}},
		{"Signer.Sign", func(ctx context.Context, cc *grpc.ClientConn, w string, u uint64) (proto.Message, string, error) {
			r, err := pb.NewSignerClient(cc).Sign(ctx, &pb.SignRequest{Id: &pb.SignRequest_Account{Account: acct(w)}, Data: h32("tls", u), Domain: MkDomain([4]byte{7, 0, 0, 0}, u)})
			if err != nil {
				return nil, "", err
			}
			return r, signSummary(r.GetState(), r.GetSignature()), nil
		}},
		{"Signer.Multisign", func(ctx context.Context, cc *grpc.ClientConn, w string, u uint64) (proto.Message, string, error) {
			r, err := pb.NewSignerClient(cc).Multisign(ctx, &pb.MultisignRequest{Requests: []*pb.SignRequest{{Id: &pb.SignRequest_Account{Account: acct(w)}, Data: h32("tls", u), Domain: MkDomain([4]byte{7, 0, 0, 0}, u)}}})
			if err != nil {
				return nil, "", err
			}
			for _, x := range r.GetResponses() {
				if len(x.GetSignature()) > 0 {
					return r, "SIGNATURE", nil
				}
			}
			return r, "no signature", nil
		}},
		{"Signer.SignBeaconAttestation", func(ctx context.Context, cc *grpc.ClientConn, w string, u uint64) (proto.Message, string, error) {
			e := AttEntry(0, u, u+1, u)
			r, err := pb.NewSignerClient(cc).SignBeaconAttestation(ctx, &pb.SignBeaconAttestationRequest{Id: &pb.SignBeaconAttestationRequest_Account{Account: acct(w)}, Domain: e.Domain, Data: e.attData()})
			if err != nil {
				return nil, "", err
			}
			return r, signSummary(r.GetState(), r.GetSignature()), nil
		}},
		{"Signer.SignBeaconAttestations", func(ctx context.Context, cc *grpc.ClientConn, w string, u uint64) (proto.Message, string, error) {
			e := AttEntry(0, u, u+1, u)
			r, err := pb.NewSignerClient(cc).SignBeaconAttestations(ctx, &pb.SignBeaconAttestationsRequest{Requests: []*pb.SignBeaconAttestationRequest{{Id: &pb.SignBeaconAttestationRequest_Account{Account: acct(w)}, Domain: e.Domain, Data: e.attData()}}})
			if err != nil {
				return nil, "", err
			}
			for _, x := range r.GetResponses() {
				if len(x.GetSignature()) > 0 {
					return r, "SIGNATURE", nil
				}
			}
			return r, "no signature", nil
		}},
		{"Signer.SignBeaconProposal", func(ctx context.Context, cc *grpc.ClientConn, w string, u uint64) (proto.Message, string, error) {
			e := PropEntry(0, u, u)
			r, err := pb.NewSignerClient(cc).SignBeaconProposal(ctx, &pb.SignBeaconProposalRequest{Id: &pb.SignBeaconProposalRequest_Account{Account: acct(w)}, Domain: e.Domain,
				Data: &pb.BeaconBlockHeader{Slot: e.PSlot, ProposerIndex: e.PIdx, ParentRoot: e.Parent, StateRoot: e.State, BodyRoot: e.Body}})
			if err != nil {
				return nil, "", err
			}
			return r, signSummary(r.GetState(), r.GetSignature()), nil
		}},
		{"AccountManager.Lock", func(ctx context.Context, cc *grpc.ClientConn, w string, _ uint64) (proto.Message, string, error) {
			r, err := pb.NewAccountManagerClient(cc).Lock(ctx, &pb.LockAccountRequest{Account: w + "/Account 1"})
			if err != nil {
				return nil, "", err
			}
			return r, r.GetState().String(), nil
		}},
		{"AccountManager.Unlock", func(ctx context.Context, cc *grpc.ClientConn, w string, _ uint64) (proto.Message, string, error) {
			r, err := pb.NewAccountManagerClient(cc).Unlock(ctx, &pb.UnlockAccountRequest{Account: w + "/Account 1", Passphrase: []byte("pass")})
			if err != nil {
				return nil, "", err
			}
			return r, r.GetState().String(), nil
		}},
		{"AccountManager.Generate", func(ctx context.Context, cc *grpc.ClientConn, w string, u uint64) (proto.Message, string, error) {
			r, err := pb.NewAccountManagerClient(cc).Generate(ctx, &pb.GenerateRequest{Account: fmt.Sprintf("%s/New %d", w, u), Passphrase: []byte("pass"), Participants: 1, SigningThreshold: 1})
			if err != nil {
				return nil, "", err
			}
			if len(r.GetPublicKey()) > 0 {
				return r, "ACCOUNT-CREATED", nil
			}
			return r, r.GetState().String(), nil
		}},
		{"WalletManager.Lock", func(ctx context.Context, cc *grpc.ClientConn, w string, _ uint64) (proto.Message, string, error) {
			r, err := pb.NewWalletManagerClient(cc).Lock(ctx, &pb.LockWalletRequest{Wallet: w})
			if err != nil {
				return nil, "", err
			}
			return r, r.GetState().String(), nil
		}},
		{"WalletManager.Unlock", func(ctx context.Context, cc *grpc.ClientConn, w string, _ uint64) (proto.Message, string, error) {
			r, err := pb.NewWalletManagerClient(cc).Unlock(ctx, &pb.UnlockWalletRequest{Wallet: w, Passphrase: []byte("pass")})
			if err != nil {
				return nil, "", err
			}
			return r, r.GetState().String(), nil
		}},
		{"DKG.Prepare", func(ctx context.Context, cc *grpc.ClientConn, w string, u uint64) (proto.Message, string, error) {
			r, err := pb.NewDKGClient(cc).Prepare(ctx, &pb.PrepareRequest{Account: fmt.Sprintf("Wallet 3/tls %d", u), Threshold: 2, Participants: []*pb.Endpoint{{Id: 1, Name: "signer-01", Port: 9000}, {Id: 2, Name: "signer-02", Port: 9001}}})
			if err != nil {
				return nil, "", err
			}
			return r, "PREPARED", nil
		}},
		{"DKG.Execute", func(ctx context.Context, cc *grpc.ClientConn, w string, u uint64) (proto.Message, string, error) {
			r, err := pb.NewDKGClient(cc).Execute(ctx, &pb.ExecuteRequest{Account: "Wallet 3/session"})
			if err != nil {
				return nil, "", err
			}
			return r, "EXECUTED", nil
		}},
		{"DKG.Commit", func(ctx context.Context, cc *grpc.ClientConn, w string, u uint64) (proto.Message, string, error) {
			r, err := pb.NewDKGClient(cc).Commit(ctx, &pb.CommitRequest{Account: "Wallet 3/session", ConfirmationData: h32("c")})
			if err != nil {
				return nil, "", err
			}
			return r, "COMMITTED", nil
		}},
		{"DKG.Abort", func(ctx context.Context, cc *grpc.ClientConn, w string, u uint64) (proto.Message, string, error) {
			r, err := pb.NewDKGClient(cc).Abort(ctx, &pb.AbortRequest{Account: "Wallet 3/session"})
			if err != nil {
				return nil, "", err
			}
			return r, "ABORTED", nil
		}},
		{"DKG.Contribute", func(ctx context.Context, cc *grpc.ClientConn, w string, u uint64) (proto.Message, string, error) {
			sec, vv := maliciousContribution(1, 2)
			r, err := pb.NewDKGClient(cc).Contribute(ctx, &pb.ContributeRequest{Account: "Wallet 3/session", Secret: sec, VerificationVector: vv})
			if err != nil {
				return nil, "", err
			}
			if len(r.GetSecret()) > 0 {
				return r, "SHARE", nil
			}
			return r, "no share", nil
		}},
	}
}

// runTLS is the body of C19: one (server configuration, method, credential, target wallet) case per run.
func runTLS(t *testing.T, rc *RunCtx) {
	if rc.Param("mode", "") == "conc" {
		runTLSConc(t, rc)
		return
	}
	if rc.Param("mode", "") == "resume" {
		runTLSResume(t, rc)
		return
	}
	if rc.Param("mode", "") == "daemon" {
		runDaemonEdge(t, rc, "C19")
		return
	}
	if rc.Param("mode", "") == "portreuse" {
		runTLSPortReuse(t, rc)
		return
	}
	InitBLS()
	w := getTLSWorld(t, rc)
	methods := tlsMethods()
	type tcase struct {
		noCA   bool
		bundle bool
		m      int
		cred   int
		wallet string
	}
	var table []tcase
	for _, cfg := range []int{0, 1, 2} {
		for m := range methods {
			for c := range tlsCredKinds {
				for _, wl := range []string{"Wallet 1", "Wallet 2"} {
					table = append(table, tcase{cfg == 1, cfg == 2, m, c, wl})
				}
			}
		}
	}
	worker, _ := strconv.Atoi(rc.Param("mw", "0"))
	workers, _ := strconv.Atoi(rc.Param("mW", "1"))
	base, _ := strconv.ParseUint(rc.Param("_seed_base", "0"), 10, 64)
	idx := int(rc.Seed-base)*workers + worker
	if idx >= len(table) {
		rc.Stats.Inc("matrix_padding_runs", 1)
		return
	}
	if idx == 0 {
		rc.Stats.Inc("matrix_total", int64(len(table)))
	}
	rc.Stats.Inc("matrix_cases", 1)
	tc := table[idx]
	srv := w.withCA
	cfgName := "authority-configured"
	if tc.noCA {
		srv, cfgName = w.noCA, "no-authority-configured"
	}
	if tc.bundle {
		srv, cfgName = w.bundled, "authority-configured-and-foreign-authority-in-the-server-certificate-file"
	}
	m, cred := methods[tc.m], tlsCredKinds[tc.cred]
	name := fmt.Sprintf("%s/%s/%s/%s", cfgName, m.Name, cred, tc.wallet)
	rc.Stats.Seen("cases", name)
	rc.Sample = map[string]any{"case": name, "table_size": len(table)}
	before, _ := srv.node.Inst.Export()
	cc, err := w.dial(srv, cred)
	if err != nil {
		rc.Violate("HARNESS", "dial", err.Error(), 0)
		return
	}
	defer cc.Close()
	ctx, cancel := context.WithTimeout(context.Background(), 10*time.Second)
	defer cancel()
	// Every call also carries the headers with which a fronting proxy would hand on a client's identity and
	// address, naming the client that IS permitted on the target wallet (and, for the key-generation messages, a
	// peer): identity comes from the verified certificate of this connection, never from request metadata.
	claim := map[string]string{"Wallet 1": "client-test01", "Wallet 2": "client-test02"}[tc.wallet]
	if len(m.Name) > 4 && m.Name[:4] == "DKG." {
		claim = "signer-02"
	}
	ctx = metadata.AppendToOutgoingContext(ctx,
		"x-forwarded-client-cert", fmt.Sprintf(`By=spiffe://cluster/ns/dirk;Hash=abcdef;Subject="CN=%s,O=Example";URI=`, claim),
		"x-client-cert-cn", claim, "x-ssl-client-cn", claim, "ssl-client-s-dn", "CN="+claim, "x-forwarded-user", claim, "x-client-name", claim,
		"x-forwarded-for", "10.0.0.1", "x-real-ip", "10.0.0.1")
	msg, what, err := m.call(ctx, cc, tc.wallet, uint64(idx+1)+rc.Seed%1000*1000)
	rc.Logf("%s -> %q err=%v", name, what, err)
	trusted := !tc.noCA && (cred == "valid-unpermitted-client" || cred == "valid-client-test01" || cred == "valid-client-test02" || cred == "valid-peer-signer-test02" ||
		cred == "valid-client-test02-followed-by-forged-client-test01" || cred == "valid-unpermitted-client-followed-by-forged-client-test01" || strings.HasPrefix(cred, "issued-"))
	sensitive := what == "SIGNATURE" || what == "ACCOUNTS" || what == "ACCOUNT-CREATED" || what == "SHARE" || what == "SUCCEEDED" || what == "PREPARED" || what == "EXECUTED" || what == "COMMITTED" || what == "ABORTED"
	after, _ := srv.node.Inst.Export()
	changed := ExportString(trimEmpty(after)) != ExportString(trimEmpty(before))
	switch {
	case !trusted:
		rc.Stats.Inc("untrusted_calls", 1)
		if msg != nil || err == nil {
			rc.Violate("C19", "served-without-valid-certificate", fmt.Sprintf("%s: the caller obtained a response (%s)", name, what), 0)
		}
		if changed {
			rc.Violate("C19", "state-changed-without-valid-certificate", name, 0)
		}
	default:
		rc.Stats.Inc("trusted_calls", 1)
		identity := map[string]string{"valid-unpermitted-client": "client-test03", "valid-client-test01": "client-test01", "valid-client-test02": "client-test02", "valid-peer-signer-test02": "signer-test02",
			"valid-client-test02-followed-by-forged-client-test01": "client-test02", "valid-unpermitted-client-followed-by-forged-client-test01": "client-test03"}[cred]
		if id, ok := issuedIdentity[cred]; ok {
			identity = id
		}
		allowedWallet := map[string]string{"client-test01": "Wallet 1", "client-test02": "Wallet 2"}[identity]
		isDKG := len(m.Name) > 4 && m.Name[:4] == "DKG."
		mayServe := (!isDKG && allowedWallet == tc.wallet) || (isDKG && false)
		// The peer names of this cluster are signer-01..03, so signer-test02 is not a peer here either.
		if sensitive && !mayServe {
			rc.Violate("C19", "identity-not-taken-from-verified-certificate", fmt.Sprintf("%s: caller authenticated as %s obtained %s", name, identity, what), 0)
		}
		if changed && !mayServe {
			rc.Violate("C19", "state-changed-for-unpermitted-identity", name, 0)
		}
		if mayServe && sensitive {
			rc.Stats.Inc("permitted_calls_served", 1)
		}
		if mayServe && !sensitive {
			rc.Stats.Inc("permitted_calls_not_served", 1)
			rc.Logf("note: permitted call %s was not served (%s, %v)", name, what, err)
		}
	}
}

// runPeerEdge is the TLS-edge layer of C16: key-generation messages sent over real gRPC/TLS to an instance whose
// peers are named like the repository's signer certificates.  A genuine peer opens a session (control); then a
// caller with the case's credential sends the case's message.  Only a caller whose VERIFIED leaf certificate names a
// peer may be honoured, and whatever a non-peer sent, the genuine peer's session is still there afterwards.
func runPeerEdge(t *testing.T, rc *RunCtx) {
	InitBLS()
	w := getTLSWorld(t, rc)
	creds := []string{"plaintext", "tls-no-client-cert", "valid-client-test01", "valid-unpermitted-client", "self-signed-peer-name", "other-authority-peer-name",
		"valid-client-test01-followed-by-public-certificate-of-peer", "valid-unpermitted-client-followed-by-public-certificate-of-peer",
		"self-signed-peer-name-followed-by-public-certificate-of-peer", "valid-peer-signer-test03",
		"issued-subject-client-test01-alt-name-signer-test02", "issued-subject-client-test03-alt-names-signer-test02-and-own",
		// a certificate of the configured authority without a subject name, from the address under which the peer table
		// lists a peer (peers may be listed by address): an address is not an authenticated name
		"issued-empty-subject-alt-name-client-test01",
		// a peer's name certified by an authority the host trusts for other purposes, not by the configured one
		"host-trust-store-authority-peer-name"}
	msgs := []string{"prepare", "contribute", "execute", "commit", "abort"}
	base, _ := strconv.ParseUint(rc.Param("_seed_base", "0"), 10, 64)
	idx := int(rc.Seed - base)
	total := len(creds) * len(msgs)
	if idx >= total {
		rc.Stats.Inc("matrix_padding_runs", 1)
		return
	}
	if idx == 0 {
		rc.Stats.Inc("edge_total", int64(total))
	}
	rc.Stats.Inc("edge_cases", 1)
	cred, msg := creds[idx/len(msgs)], msgs[idx%len(msgs)]
	name := fmt.Sprintf("tls-edge/%s/%s", cred, msg)
	rc.Stats.Seen("cases", name)
	rc.Sample = map[string]any{"case": name, "table_size": total}
	srv := w.peerEdge
	account := fmt.Sprintf("Wallet 3/edge %d %d", idx, rc.Seed%100000)
	parts := []*pb.Endpoint{{Id: 1, Name: "signer-test01", Port: 9000}, {Id: 2, Name: "signer-test02", Port: 9001}, {Id: 3, Name: "signer-test03", Port: 9002}}
	ctx, cancel := context.WithTimeout(context.Background(), 20*time.Second)
	defer cancel()
	peer, err := w.dial(srv, "valid-peer-signer-test02")
	if err != nil {
		rc.Violate("HARNESS", "dial", err.Error(), 0)
		return
	}
	defer peer.Close()
	if _, err := pb.NewDKGClient(peer).Prepare(ctx, &pb.PrepareRequest{Account: account, Threshold: 2, Participants: parts}); err != nil {
		rc.Logf("genuine peer could not open a session: %v", err)
		rc.Stats.Inc("edge_genuine_peer_refused", 1)
		return
	}
	rc.Stats.Inc("edge_genuine_peer_served", 1)
	cc, err := w.dial(srv, cred)
	if err != nil {
		rc.Violate("HARNESS", "dial", err.Error(), 0)
		return
	}
	defer cc.Close()
	cl := pb.NewDKGClient(cc)
	what := ""
	switch msg {
	case "prepare":
		if _, err = cl.Prepare(ctx, &pb.PrepareRequest{Account: account + " other", Threshold: 2, Participants: parts}); err == nil {
			what = "a session was opened"
		}
	case "contribute":
		sec, vv := maliciousContribution(1, 2)
		var r *pb.ContributeResponse
		if r, err = cl.Contribute(ctx, &pb.ContributeRequest{Account: account, Secret: sec, VerificationVector: vv}); err == nil && len(r.GetSecret()) > 0 {
			what = "a share was handed out"
		}
	case "execute":
		if _, err = cl.Execute(ctx, &pb.ExecuteRequest{Account: account}); err == nil {
			what = "execute was accepted"
		}
	case "commit":
		if _, err = cl.Commit(ctx, &pb.CommitRequest{Account: account, ConfirmationData: h32("c")}); err == nil {
			what = "commit was accepted"
		}
	case "abort":
		if _, err = cl.Abort(ctx, &pb.AbortRequest{Account: account}); err == nil {
			what = "abort was accepted"
		}
	}
	rc.Logf("%s -> %q err=%v", name, what, err)
	isPeer := cred == "valid-peer-signer-test03"
	if !isPeer {
		rc.Stats.Inc("edge_non_peer_calls", 1)
		if what != "" {
			rc.Violate("C16", "non-peer-message-honoured", fmt.Sprintf("%s: %s for a caller whose verified certificate does not name a peer", name, what), 0)
			return
		}
		// The genuine peer's session is untouched: it can still abort it.
		ctx2, cancel2 := context.WithTimeout(context.Background(), 60*time.Second)
		defer cancel2()
		if _, err := pb.NewDKGClient(peer).Abort(ctx2, &pb.AbortRequest{Account: account}); err != nil {
			if c := status.Code(err); c == codes.DeadlineExceeded || c == codes.Unavailable || c == codes.Canceled {
				rc.Stats.Inc("edge_transport_errors", 1) // a slow machine, not an answer of the instance
				return
			}
			rc.Violate("C16", "session-disturbed-by-non-peer", fmt.Sprintf("%s: afterwards the genuine peer's session was gone (%v)", name, err), 0)
		}
		return
	}
	rc.Stats.Inc("edge_peer_calls", 1)
	_, _ = pb.NewDKGClient(peer).Abort(ctx, &pb.AbortRequest{Account: account})
}

// --- C05 at the real edge ---------------------------------------------------------------------------

var (
	srcEdgeOnce    sync.Once
	srcEdgeServers []*tlsServer
	srcEdgeLists   = [][]string{{}, {"127.0.0.2"}, {"127.0.0.1", "127.0.0.3"}}
)

// runSourceEdge is the real-edge layer of C05: the source address of a request is what the TCP connection says,
// whatever the caller writes into request metadata.  Real gRPC/TLS servers with different administrator lists;
// the (genuine, permitted) client binds its end of the connection to different loopback addresses and sends a
// generic signing request under the voluntary-exit domain type, with or without forwarding headers naming a
// listed address.
func runSourceEdge(t *testing.T, rc *RunCtx) {
	InitBLS()
	w := getTLSWorld(t, rc)
	srcEdgeOnce.Do(func() {
		setupRC := &RunCtx{Property: "C05", Ch: NewSeedChoice(1), Stats: NewStats()}
		for _, l := range srcEdgeLists {
			srcEdgeServers = append(srcEdgeServers, w.startServerWith(t, setupRC, resources.CACrt, "", append([]string{}, l...)))
		}
	})
	sources := []string{"127.0.0.1", "127.0.0.2", "127.0.0.3", "127.0.0.20"}
	spoofs := []string{"", "listed"}
	endpoints := []string{"Sign", "Multisign"}
	base, _ := strconv.ParseUint(rc.Param("_seed_base", "0"), 10, 64)
	idx := int(rc.Seed - base)
	total := len(srcEdgeLists) * len(sources) * len(spoofs) * len(endpoints)
	if idx >= total {
		rc.Stats.Inc("matrix_padding_runs", 1)
		return
	}
	if idx == 0 {
		rc.Stats.Inc("edge_total", int64(total))
	}
	rc.Stats.Inc("edge_cases", 1)
	li := idx % len(srcEdgeLists)
	src := sources[(idx/len(srcEdgeLists))%len(sources)]
	spoof := spoofs[(idx/(len(srcEdgeLists)*len(sources)))%len(spoofs)]
	ep := endpoints[(idx/(len(srcEdgeLists)*len(sources)*len(spoofs)))%len(endpoints)]
	admin := srcEdgeLists[li]
	srv := srcEdgeServers[li]
	name := fmt.Sprintf("source-edge/admin=%v/from=%s/headers=%s/%s", admin, src, spoof, ep)
	rc.Stats.Seen("cases", name)
	rc.Sample = map[string]any{"case": name, "table_size": total}
	pool := x509.NewCertPool()
	pool.AppendCertsFromPEM(resources.CACrt)
	crt, err := tls.X509KeyPair(resources.ClientTest01Crt, resources.ClientTest01Key)
	if err != nil {
		t.Fatalf("pair: %v", err)
	}
	cfg := &tls.Config{RootCAs: pool, ServerName: "signer-test01", MinVersion: tls.VersionTLS13, Certificates: []tls.Certificate{crt}}
	dialer := func(ctx context.Context, addr string) (net.Conn, error) {
		d := net.Dialer{LocalAddr: &net.TCPAddr{IP: net.ParseIP(src)}}
		return d.DialContext(ctx, "tcp", addr)
	}
	cc, err := grpc.NewClient("passthrough:///"+srv.addr, grpc.WithTransportCredentials(credentials.NewTLS(cfg)), grpc.WithContextDialer(dialer))
	if err != nil {
		rc.Violate("HARNESS", "dial", err.Error(), 0)
		return
	}
	defer cc.Close()
	ctx, cancel := context.WithTimeout(context.Background(), 10*time.Second)
	defer cancel()
	if spoof != "" {
		claim := "10.0.0.1"
		if len(admin) > 0 {
			claim = admin[0]
		}
		ctx = metadata.AppendToOutgoingContext(ctx, "x-forwarded-for", claim, "x-real-ip", claim, "forwarded", "for="+claim, "x-envoy-external-address", claim, "x-client-ip", claim)
	}
	domain := MkDomain(DomExit, uint64(idx))
	data := h32("exit", idx, rc.Seed)
	signed := false
	cl := pb.NewSignerClient(cc)
	if ep == "Sign" {
		r, err := cl.Sign(ctx, &pb.SignRequest{Id: &pb.SignRequest_Account{Account: "Wallet 1/Account 0"}, Data: data, Domain: domain})
		if err != nil {
			rc.Stats.Inc("edge_transport_errors", 1)
			rc.Logf("%s: %v", name, err)
			return
		}
		signed = r.GetState() == pb.ResponseState_SUCCEEDED && len(r.GetSignature()) > 0
	} else {
		r, err := cl.Multisign(ctx, &pb.MultisignRequest{Requests: []*pb.SignRequest{
			{Id: &pb.SignRequest_Account{Account: "Wallet 1/Account 0"}, Data: data, Domain: domain},
			{Id: &pb.SignRequest_Account{Account: "Wallet 1/Account 1"}, Data: data, Domain: MkDomain([4]byte{7, 0, 0, 0}, 1)}}})
		if err != nil {
			rc.Stats.Inc("edge_transport_errors", 1)
			rc.Logf("%s: %v", name, err)
			return
		}
		if len(r.GetResponses()) > 0 {
			signed = r.GetResponses()[0].GetState() == pb.ResponseState_SUCCEEDED && len(r.GetResponses()[0].GetSignature()) > 0
		}
	}
	listed := false
	for _, a := range admin {
		if a == src {
			listed = true
		}
	}
	rc.Logf("%s -> signed=%v listed=%v", name, signed, listed)
	switch {
	case signed && !listed:
		rc.Violate("C05", "exit-signed-for-unlisted-source", fmt.Sprintf("%s: a voluntary-exit signature was released to a connection from %s, which is not in the administrator list %v", name, src, admin), 0)
	case signed:
		rc.Stats.Inc("edge_exit_signed_for_listed_source", 1)
	case listed:
		rc.Stats.Inc("edge_exit_refused_for_listed_source", 1)
	default:
		rc.Stats.Inc("edge_exit_refused_for_unlisted_source", 1)
	}
}

// runTLSConc is the free-running layer of C19: two differently certified clients use the same daemon at the same
// time over real gRPC/TLS - client-test02 signs with its own wallet continuously while client-test01 keeps asking
// for a signature (or a listing) of that wallet, which it has no permission for.  Whatever the timing, a caller is
// served by the subject of its own verified certificate only.  Seeded in its workload, not in its interleaving.
func runTLSConc(t *testing.T, rc *RunCtx) {
	InitBLS()
	w := getTLSWorld(t, rc)
	ch := rc.Ch
	// Many clients at once, on few or on all processors: request goroutines run truly in parallel, are preempted
	// in the middle of their work, and share per-processor caches and pools.
	prev := runtime.GOMAXPROCS([]int{2, 4, max(8, runtime.NumCPU()), max(8, runtime.NumCPU())}[ch.Pick(4, 0)])
	defer runtime.GOMAXPROCS(prev)
	srv := w.withCA
	owners := 8 + ch.Pick(25, 0)
	outsiders := 8 + ch.Pick(25, 0)
	perClient := 100 + 100*ch.Pick(4, 0)
	useList := ch.Pick(3, 0) == 2
	var served atomic.Int64
	var detail atomic.Value
	var asked, ownOK atomic.Int64
	stop := make(chan struct{})
	var wgOwn, wgOut sync.WaitGroup
	for i := 0; i < owners; i++ {
		wgOwn.Add(1)
		go func(i int) {
			defer wgOwn.Done()
			cc, err := w.dial(srv, "valid-client-test02")
			if err != nil {
				return
			}
			defer cc.Close()
			for u := uint64(0); ; u++ {
				select {
				case <-stop:
					return
				default:
				}
				ctx, cancel := context.WithTimeout(context.Background(), 20*time.Second)
				r, err := pb.NewSignerClient(cc).Sign(ctx, &pb.SignRequest{Id: &pb.SignRequest_Account{Account: "Wallet 2/Account 0"}, Data: h32("own", i, u), Domain: MkDomain([4]byte{7, 0, 0, 0}, u)})
				cancel()
				if err == nil && r.GetState() == pb.ResponseState_SUCCEEDED {
					ownOK.Add(1)
				}
			}
		}(i)
	}
	for i := 0; i < outsiders; i++ {
		wgOut.Add(1)
		go func(i int) {
			defer wgOut.Done()
			cc, err := w.dial(srv, "valid-client-test01")
			if err != nil {
				return
			}
			defer cc.Close()
			for u := 0; u < perClient && served.Load() == 0; u++ {
				ctx, cancel := context.WithTimeout(context.Background(), 20*time.Second)
				asked.Add(1)
				if useList {
					r, err := pb.NewListerClient(cc).ListAccounts(ctx, &pb.ListAccountsRequest{Paths: []string{"Wallet 2"}})
					if err == nil && len(r.GetAccounts()) > 0 {
						served.Add(1)
						detail.Store(fmt.Sprintf("client-test01 was given a listing of Wallet 2 (%d accounts)", len(r.GetAccounts())))
					}
				} else {
					r, err := pb.NewSignerClient(cc).Sign(ctx, &pb.SignRequest{Id: &pb.SignRequest_Account{Account: "Wallet 2/Account 0"}, Data: h32("out", i, u), Domain: MkDomain([4]byte{7, 0, 0, 0}, uint64(u))})
					if err == nil && (r.GetState() == pb.ResponseState_SUCCEEDED || len(r.GetSignature()) > 0) {
						served.Add(1)
						detail.Store(fmt.Sprintf("client-test01 was given a signature of Wallet 2/Account 0 (state %v)", r.GetState()))
					}
				}
				cancel()
			}
		}(i)
	}
	wgOut.Wait()
	close(stop)
	wgOwn.Wait()
	rc.Stats.Inc("concurrent_identity_requests", asked.Load())
	rc.Stats.Inc("concurrent_owner_requests_served", ownOK.Load())
	rc.Stats.Seen("cases", fmt.Sprintf("tlsconc/%d/%d/%d/%v/%d", owners, outsiders, perClient, useList, rc.Seed))
	rc.Sample = map[string]any{"layer": "free-running two-client load over TLS", "owners": owners, "outsiders": outsiders, "requests_per_outsider": perClient, "listing": useList}
	if served.Load() > 0 {
		d, _ := detail.Load().(string)
		rc.Violate("C19", "identity-not-taken-from-verified-certificate", fmt.Sprintf("while client-test02 was using the daemon at the same time, after %d requests: %s", asked.Load(), d), 0)
	}
}

// runPeerEdgeConc is the free-running part of C16's TLS edge: while genuine peers (signer-test02, signer-test03)
// keep the instance busy with key-generation messages of their own over real gRPC/TLS, ordinary clients
// (client-test01: a valid certificate, not a peer) keep sending Abort for a session a peer has opened.  Whatever
// the timing, none of them is ever taken for a peer: every such Abort is refused and the session survives.
func runPeerEdgeConc(t *testing.T, rc *RunCtx) {
	InitBLS()
	w := getTLSWorld(t, rc)
	ch := rc.Ch
	prev := runtime.GOMAXPROCS([]int{4, max(8, runtime.NumCPU()), max(8, runtime.NumCPU())}[ch.Pick(3, 0)])
	defer runtime.GOMAXPROCS(prev)
	srv := w.peerEdge
	parts := []*pb.Endpoint{{Id: 1, Name: "signer-test01", Port: 9000}, {Id: 2, Name: "signer-test02", Port: 9001}, {Id: 3, Name: "signer-test03", Port: 9002}}
	account := fmt.Sprintf("Wallet 3/edgeconc %d", rc.Seed%1000000)
	opener, err := w.dial(srv, "valid-peer-signer-test02")
	if err != nil {
		rc.Violate("HARNESS", "dial", err.Error(), 0)
		return
	}
	defer opener.Close()
	ctx0, cancel0 := context.WithTimeout(context.Background(), 30*time.Second)
	_, err = pb.NewDKGClient(opener).Prepare(ctx0, &pb.PrepareRequest{Account: account, Threshold: 2, Participants: parts})
	cancel0()
	if err != nil {
		rc.Stats.Inc("edge_genuine_peer_refused", 1)
		return
	}
	peers := 4 + ch.Pick(13, 0)
	outsiders := 4 + ch.Pick(13, 0)
	perOutsider := 500 + 500*ch.Pick(4, 0)
	var honoured, asked, peerCalls atomic.Int64
	stop := make(chan struct{})
	var wgP, wgO sync.WaitGroup
	for i := 0; i < peers; i++ {
		wgP.Add(1)
		go func(i int) {
			defer wgP.Done()
			cc, err := w.dial(srv, []string{"valid-peer-signer-test02", "valid-peer-signer-test03"}[i%2])
			if err != nil {
				return
			}
			defer cc.Close()
			cl := pb.NewDKGClient(cc)
			for u := 0; ; u++ {
				select {
				case <-stop:
					return
				default:
				}
				ctx, cancel := context.WithTimeout(context.Background(), 20*time.Second)
				// an Abort for a session that does not exist: identified as a peer, then refused for the missing session
				_, _ = cl.Abort(ctx, &pb.AbortRequest{Account: fmt.Sprintf("Wallet 3/none %d %d", i, u)})
				cancel()
				peerCalls.Add(1)
			}
		}(i)
	}
	for i := 0; i < outsiders; i++ {
		wgO.Add(1)
		go func(i int) {
			defer wgO.Done()
			cc, err := w.dial(srv, "valid-client-test01")
			if err != nil {
				return
			}
			defer cc.Close()
			cl := pb.NewDKGClient(cc)
			for u := 0; u < perOutsider && honoured.Load() == 0; u++ {
				ctx, cancel := context.WithTimeout(context.Background(), 20*time.Second)
				asked.Add(1)
				if _, err := cl.Abort(ctx, &pb.AbortRequest{Account: account}); err == nil {
					honoured.Add(1)
				}
				cancel()
			}
		}(i)
	}
	wgO.Wait()
	close(stop)
	wgP.Wait()
	rc.Stats.Inc("edge_concurrent_non_peer_calls", asked.Load())
	rc.Stats.Inc("edge_concurrent_peer_calls", peerCalls.Load())
	rc.Stats.Seen("cases", fmt.Sprintf("edgeconc/%d/%d/%d/%d", peers, outsiders, perOutsider, rc.Seed))
	rc.Sample = map[string]any{"layer": "free-running peers and non-peers over TLS", "peers": peers, "non_peers": outsiders, "requests_per_non_peer": perOutsider}
	if honoured.Load() > 0 {
		rc.Violate("C16", "non-peer-message-honoured", fmt.Sprintf("while genuine peers were using the instance at the same time, an Abort of %q sent by client-test01 (a valid certificate, not a peer) was accepted after %d attempts", account, asked.Load()), 0)
		return
	}
	ctx2, cancel2 := context.WithTimeout(context.Background(), 60*time.Second)
	defer cancel2()
	if _, err := pb.NewDKGClient(opener).Abort(ctx2, &pb.AbortRequest{Account: account}); err != nil {
		if c := status.Code(err); c == codes.DeadlineExceeded || c == codes.Unavailable || c == codes.Canceled {
			rc.Stats.Inc("edge_transport_errors", 1)
			return
		}
		rc.Violate("C16", "session-disturbed-by-non-peer", fmt.Sprintf("after %d refused aborts by a non-peer the genuine peer's session %q was gone (%v)", asked.Load(), account, err), 0)
	}
}

// runTLSResume is the session-resumption scenario of C19: a client with a genuine certificate of authority A
// talks to a daemon configured with A (full handshake, session ticket received), then - with the same TLS
// session cache - to a daemon that has the same server certificate but is configured with another authority B
// only (an operator replaced the authority and restarted).  That daemon must verify the caller against B:
// nothing is served on the strength of a session another process vouched for.
var (
	resumeOnce sync.Once
	resumeSrv  *tlsServer
)

func runTLSResume(t *testing.T, rc *RunCtx) {
	InitBLS()
	w := getTLSWorld(t, rc)
	resumeOnce.Do(func() {
		setupRC := &RunCtx{Property: "C19", Ch: NewSeedChoice(1), Stats: NewStats()}
		pemB := pem.EncodeToMemory(&pem.Block{Type: "CERTIFICATE", Bytes: w.otherCA.Raw})
		resumeSrv = w.startServerWith(t, setupRC, pemB, "", nil)
	})
	ch := rc.Ch
	pool := x509.NewCertPool()
	pool.AppendCertsFromPEM(resources.CACrt)
	crt, err := tls.X509KeyPair(resources.ClientTest01Crt, resources.ClientTest01Key)
	if err != nil {
		t.Fatalf("pair: %v", err)
	}
	cfg := &tls.Config{RootCAs: pool, ServerName: "signer-test01", MinVersion: tls.VersionTLS13, Certificates: []tls.Certificate{crt}, ClientSessionCache: tls.NewLRUClientSessionCache(8)}
	call := func(addr string) (string, error) {
		cc, err := grpc.NewClient(addr, grpc.WithTransportCredentials(credentials.NewTLS(cfg)))
		if err != nil {
			return "", err
		}
		defer cc.Close()
		ctx, cancel := context.WithTimeout(context.Background(), 10*time.Second)
		defer cancel()
		if ch.Pick(2, 0) == 1 {
			r, err := pb.NewListerClient(cc).ListAccounts(ctx, &pb.ListAccountsRequest{Paths: []string{"Wallet 1"}})
			if err != nil {
				return "", err
			}
			return fmt.Sprintf("a listing of %d accounts", len(r.GetAccounts())), nil
		}
		r, err := pb.NewSignerClient(cc).Sign(ctx, &pb.SignRequest{Id: &pb.SignRequest_Account{Account: "Wallet 1/Account 0"}, Data: h32("resume", rc.Seed), Domain: MkDomain([4]byte{7, 0, 0, 0}, rc.Seed)})
		if err != nil {
			return "", err
		}
		return signSummary(r.GetState(), r.GetSignature()), nil
	}
	warm := 1 + ch.Pick(3, 0)
	for i := 0; i < warm; i++ {
		if what, err := call(w.withCA.addr); err != nil {
			rc.Stats.Inc("resume_control_failed", 1)
			rc.Logf("control call failed: %v", err)
			return
		} else if i == 0 {
			rc.Logf("with the right authority configured: %s", what)
		}
	}
	rc.Stats.Inc("resume_sessions_established", 1)
	what, err := call(resumeSrv.addr)
	rc.Stats.Inc("resume_attempts_against_other_authority", 1)
	rc.Stats.Seen("cases", fmt.Sprintf("resume/%d/%d", warm, rc.Seed))
	rc.Sample = map[string]any{"layer": "session resumption across daemons with different authorities", "sessions_before": warm}
	if err == nil {
		rc.Violate("C19", "served-without-valid-certificate", fmt.Sprintf("a daemon configured with another authority served a caller whose certificate that authority never issued (%s), after the caller had established TLS sessions with a daemon of the original authority", what), 0)
	}
}

func init() {
	noBubble["C19:resume"] = true
	noBubble["C16:tlsconc"] = true
	noBubble["C19:conc"] = true
	noBubble["C16:tls"] = true
	noBubble["C05:edge"] = true
	propRunners["C19"] = runTLS
	noBubble["C19"] = true
}
