package sim

import (
	"fmt"
	"github.com/attestantio/dirk/services/checker"
	"runtime"
	"sync"
	"testing"

	"github.com/attestantio/dirk/util"
)

var gomaxprocsSet = []int{1, 2, 3, 4, 5, 7, 8, 16, 33, 64, 128}

func drawBatchSize(rc *RunCtx) int {
	ch := rc.Ch
	switch ch.Pick(10, 0) {
	case 0, 1, 2, 3, 4, 5:
		return 1 + ch.Pick(40, 0)
	case 6, 7:
		return 1 + ch.Pick(12, 0)
	default:
		if rc.Tier == "thorough" {
			return 41 + ch.Pick(472, 0)
		}
		return 41 + ch.Pick(300, 0)
	}
}

// pickKeys draws n distinct keys; within one run the rounds start from the same key with the same stride,
// so that successive rounds meet the histories the earlier ones left (a run-level anchor kept in rc.Local).
func pickKeys(rc *RunCtx, total, n int) []int {
	strides := []int{1, 3, 7, 11, 17, 23, 101}
	st := strides[rc.Ch.Pick(len(strides), 0)]
	start := rc.Ch.Pick(total, 0)
	if rc.Local == nil {
		rc.Local = map[string]string{}
	}
	if a, ok := rc.Local["key_anchor"]; ok {
		fmt.Sscanf(a, "%d/%d", &start, &st)
	} else if rc.Ch.Pick(4, 0) != 3 {
		rc.Local["key_anchor"] = fmt.Sprintf("%d/%d", start, st)
	}
	// distinct keys: the stride must not share a factor with the population's size
	for a, b := total, st; ; a, b = b, a%b {
		if b == 0 {
			if a != 1 {
				st = 1
			}
			break
		}
	}
	start %= total
	out := make([]int, n)
	for i := range out {
		out[i] = (start + i*st) % total
	}
	return out
}

// twin world: instance A receives batches, instance B the same entries one at a time.
type batchWorld struct {
	rc   *RunCtx
	t    *testing.T
	pop  *Population
	s    *Sched
	a, b *Instance
	// nKeys: requests draw their keys from the first nKeys accounts of the population
	nKeys int
}

func newBatchWorld(t *testing.T, rc *RunCtx, twin bool) *batchWorld {
	pop := BigPopulation(t)
	s := NewSched(rc, SchedCfg{StayBias: []float64{0, 0.5, 0.9}[rc.Ch.Pick(3, 0)], MaxSteps: 1 << 20})
	s.KeyName = pop.KeyName
	w := &batchWorld{rc: rc, t: t, pop: pop, s: s}
	var err error
	// The client is authorised for everything it asks; how that is written down is drawn (a plain "All", the
	// operations spelled out, an explicit trailing "None" - which every list has implicitly -, a denial of an
	// unrelated operation).
	perms := FullPermissions("client1")
	switch rc.Ch.Pick(4, 0) {
	case 1:
		perms = map[string][]*checker.Permissions{"client1": {{Path: ".*", Operations: []string{"Sign beacon attestation", "Sign beacon proposal", "Sign", "Access account", "None"}}}}
	case 2:
		perms = map[string][]*checker.Permissions{"client1": {{Path: ".*", Operations: []string{"All", "None"}}}}
	case 3:
		perms = map[string][]*checker.Permissions{"client1": {{Path: "Big(Shared|Batch)?", Operations: []string{"Sign beacon attestation", "Sign beacon proposal", "Sign", "~Lock wallet", "~Create account"}}}}
	}
	// A fifth of the twin runs: the unlocker knows no account passphrases (the operator unlocks accounts by hand; the
	// large wallet's accounts are unlocked already).  An unlocked account signs whatever the unlocker could or could not do.
	noPass := twin && rc.Ch.Pick(5, 0) == 4
	w.nKeys = len(pop.Accts)
	if noPass {
		rc.Stats.Inc("runs_with_an_unlocker_without_account_passphrases", 1)
		// ... which leaves the batched wallet (not opened ahead of time) out of reach: requests stay in front of it
		for i, a := range pop.Accts {
			if a.Batched {
				w.nKeys = i
				break
			}
		}
	}
	w.a, err = NewInstance(s, "A", InstCfg{Dir: NewRunDir(t), Pop: pop, Permissions: perms, AdminIPs: []string{"10.0.0.1"}, NoAccountPassphrases: noPass})
	if err != nil {
		t.Fatalf("instance A: %v", err)
	}
	if twin {
		w.b, err = NewInstance(s, "B", InstCfg{Dir: NewRunDir(t), Pop: pop, Permissions: perms, AdminIPs: []string{"10.0.0.1"}, NoAccountPassphrases: noPass})
		if err != nil {
			t.Fatalf("instance B: %v", err)
		}
	}
	return w
}

func (w *batchWorld) close() {
	w.a.Close()
	if w.b != nil {
		w.b.Close()
	}
	w.s.Close()
}

// exec runs one op on an instance, under the scheduler (so that scatter workers are interleaved in
// drawn order) when it is small enough, directly otherwise.
func (w *batchWorld) exec(inst *Instance, o *Op, scheduled bool) *OpResult {
	if !scheduled {
		var r *OpResult
		w.s.Direct(func() { r = o.Exec(inst) })
		return r
	}
	var r *OpResult
	w.s.Spawn("batch", inst, func(t *Task) { r = o.Exec(inst) })
	if out := w.s.Run(); out != "done" {
		w.rc.Stats.Inc("outcome_"+out, 1)
	}
	if r == nil {
		r = &OpResult{}
	}
	return r
}

// attFor draws an attestation entry for key k relative to the model watermark w.
func attFor(rc *RunCtx, k int, wm Watermark, uniq uint64) Entry {
	ch := rc.Ch
	var src, tgt uint64
	fresh := wm.Tgt < 0
	ls, lt := uint64(0), uint64(0)
	if wm.Src > 0 {
		ls = uint64(wm.Src)
	}
	if wm.Tgt > 0 {
		lt = uint64(wm.Tgt)
	}
	switch m := ch.Pick(10, 0); {
	case m <= 5: // advancing, incl. equal consecutive sources
		src = ls + uint64(ch.Pick(2, 0))
		tgt = max(lt, src) + 1 + uint64(ch.Pick(2, 0))
		if fresh && ch.Pick(3, 0) == 0 {
			src, tgt = 0, 0
		}
	case m == 6: // far jump near the top of the representable range
		src = max(ls, 1<<63-3)
		tgt = 1<<63 - 1
		if ch.Pick(2, 0) == 0 {
			src, tgt = max(ls, 1<<63-4), 1<<63-2
		}
	case m == 7: // equal target (must be refused unless fresh)
		src, tgt = ls, lt
	case m == 8: // lower source, target possibly well ahead (refused: nothing about it may be remembered)
		src = ls
		if src > 0 {
			src--
		}
		tgt = lt + 1 + uint64(ch.Pick(4, 0))
	default: // target not above source
		src = ls + 2
		tgt = src - uint64(ch.Pick(2, 0))
	}
	e := AttEntry(k, src, tgt, uniq)
	e.Slot, e.CIdx = rc.Ch.U64(), rc.Ch.U64()
	switch ch.Pick(8, 0) {
	case 1, 2:
		e.ByKey = true
	case 3:
		e.KeyPad = 1 + ch.Pick(2, 0)
	}
	return e
}

func runBatch(t *testing.T, rc *RunCtx, prop string) {
	ch := rc.Ch
	if rc.Param("mode", "") == "scatter" {
		runScatterTable(t, rc)
		return
	}
	if rc.Param("mode", "") == "free" {
		runBatchFree(t, rc, prop)
		return
	}
	if rc.Param("mode", "") == "wire" {
		runBatchWire(t, rc)
		return
	}
	procs := gomaxprocsSet[ch.Pick(len(gomaxprocsSet), 0)]
	prev := runtime.GOMAXPROCS(procs)
	defer runtime.GOMAXPROCS(prev)
	twin := prop == "C09"
	w := newBatchWorld(t, rc, twin)
	defer w.close()
	model := NewModelState(len(w.pop.Accts))
	ledger := NewLedger()
	rounds := 1 + ch.Pick(5, 0)
	uniq := uint64(0)
	var desc []string
	nontrivial := false
	if prop == "C08" && ch.Pick(4, 0) == 3 {
		// The share of a threshold key this instance holds, addressed three ways: by name, by the share's public key, and by
		// the validator's (composite) key - which names no account here.  Whatever is signed verifies under the key (or the
		// account) the request addressed.
		sh := w.pop.Accts[len(w.pop.Accts)-1]
		if sh.Composite != nil {
			for v := 0; v < 3; v++ {
				uniq++
				e := GenEntry(sh.idx, MkDomain([4]byte{7, 0, 0, 0}, uniq), uniq)
				switch v {
				case 1:
					e.ByKey = true
				case 2:
					e.AddrKey = sh.Composite
				}
				o := &Op{Kind: []string{"gen", "multi"}[ch.Pick(2, 0)], Client: "client1", Entries: []Entry{e}}
				var res *OpResult
				w.s.Direct(func() { res = o.Exec(w.a) })
				Monitor(rc, ledger, w.pop, o, res, 0, false)
				rc.Stats.Inc("probe_threshold_share_addressed_three_ways", 1)
			}
		}
	}
	for r := 0; r < rounds && len(rc.Viol) == 0; r++ {
		if r > 0 && ch.Pick(4, 0) == 3 {
			// Clean restart of both instances between rounds: the next requests are the first after start-up.
			w.s.Direct(func() {
				for _, pi := range []**Instance{&w.a, &w.b} {
					if *pi == nil {
						continue
					}
					old := *pi
					old.Close()
					ni, err := NewInstance(w.s, old.Name, old.Cfg)
					if err != nil {
						t.Fatalf("restart: %v", err)
					}
					*pi = ni
				}
			})
			rc.Stats.Inc("clean_restarts", 1)
		}
		n := drawBatchSize(rc)
		keys := pickKeys(rc, w.nKeys, n)
		kind := "atts"
		if prop == "C08" {
			kind = []string{"atts", "atts", "multi", "att", "prop", "gen", "att-seq", "conc"}[ch.Pick(8, 0)]
		} else if ch.Pick(5, 0) == 4 {
			kind = "prop"
		}
		if kind == "att-seq" {
			// Consecutive single attestations by different validators of one committee: same slot, committee
			// index and head, but each with its own source/target checkpoints.
			sl, ci, head := ch.U64(), ch.U64(), h32("shared head", r, rc.Seed)
			for j, k := range keys[:min(len(keys), 2+ch.Pick(3, 0))] {
				uniq++
				e := attFor(rc, k, model.W[k], uniq)
				e.Slot, e.CIdx, e.Block = sl, ci, head
				if j%2 == 1 {
					e.ByKey = true
				}
				so := &Op{Kind: "att", Client: "client1", Entries: []Entry{e}}
				rs := w.exec(w.a, so, false)
				model.Apply(so)
				Monitor(rc, ledger, w.pop, so, rs, r, false)
			}
			desc = append(desc, fmt.Sprintf("att-seq procs=%d", procs))
			rc.Stats.Inc("probe_single_attestations_sharing_slot_committee_head", 1)
			nontrivial = true
			continue
		}
		if kind == "conc" {
			// Two or three batch requests over disjoint keys in flight at once, interleaved by the scheduler at
			// every yield point, sometimes right after a batch that was refused before the rules ran (unknown
			// account): each response must still be about its own request.
			if ch.Pick(2, 0) == 1 {
				uniq++
				ro := &Op{Kind: "atts", Client: "client1", Entries: []Entry{attFor(rc, keys[0], model.W[keys[0]], uniq), AttEntry(-1, 1, 2, uniq+1)}}
				uniq++
				rr := w.exec(w.a, ro, false)
				Monitor(rc, ledger, w.pop, ro, rr, r, false)
				for j := range ro.Entries {
					if rr.OK(j) {
						model.W[keys[0]].Src, model.W[keys[0]].Tgt = int64(ro.Entries[j].Src), int64(ro.Entries[j].Tgt)
					}
				}
				rc.Stats.Inc("probe_refused_batch_before_concurrent_batches", 1)
			}
			nreq := 2 + ch.Pick(2, 0)
			all := pickKeys(rc, w.nKeys, nreq*4)
			var ops []*Op
			var res []*OpResult
			for q := 0; q < nreq; q++ {
				mine := all[q*4 : q*4+2+ch.Pick(3, 0)]
				o := &Op{Kind: []string{"atts", "multi"}[ch.Pick(2, 0)], Client: "client1"}
				for _, k := range mine {
					uniq++
					if o.Kind == "atts" {
						o.Entries = append(o.Entries, attFor(rc, k, model.W[k], uniq))
					} else {
						e := GenEntry(k, MkDomain([4]byte{byte(5 + ch.Pick(6, 0)), 0, 0, 0}, ch.U64()), uniq)
						e.ByKey = ch.Pick(3, 0) == 1
						o.Entries = append(o.Entries, e)
					}
				}
				ops = append(ops, o)
				res = append(res, nil)
			}
			for q := range ops {
				q := q
				w.s.Spawn(fmt.Sprintf("conc%d", q), w.a, func(t *Task) { res[q] = ops[q].Exec(w.a) })
			}
			if out := w.s.Run(); out != "done" {
				rc.Stats.Inc("outcome_"+out, 1)
			}
			for q, o := range ops {
				if res[q] == nil {
					continue
				}
				Monitor(rc, ledger, w.pop, o, res[q], r, false)
				if len(res[q].States) != len(o.Entries) {
					rc.Violate("C08", "response-count-differs", fmt.Sprintf("%s: %d responses for %d requests", o, len(res[q].States), len(o.Entries)), r)
				}
				if o.Kind == "atts" {
					for j := range o.Entries {
						if res[q].OK(j) {
							k := o.Entries[j].Acct
							model.W[k].Src, model.W[k].Tgt = int64(o.Entries[j].Src), int64(o.Entries[j].Tgt)
						}
					}
				}
			}
			desc = append(desc, fmt.Sprintf("conc x%d procs=%d", nreq, procs))
			rc.Stats.Inc("probe_concurrent_batch_requests", 1)
			nontrivial = true
			continue
		}
		o := &Op{Kind: kind, Client: "client1"}
		switch kind {
		case "atts":
			shared := ch.Pick(2, 0) == 1 // the whole committee attests at one (slot, committee index), roots differ
			forks := ch.Pick(3, 0) == 2
			sl, ci := ch.U64(), ch.U64()
			// A third of the batches: entries agree in everything but their source and target epochs (slot, committee,
			// head and both checkpoint roots are the same) - validators with different histories asked about one fork
			// choice.  What is signed for an entry is the data of that entry.
			sameRoots := ch.Pick(3, 0) == 2
			var first *Entry
			for _, k := range keys {
				uniq++
				e := attFor(rc, k, model.W[k], uniq)
				if shared {
					e.Slot, e.CIdx = sl, ci
				}
				if sameRoots {
					if first == nil {
						f := e
						first = &f
					} else {
						e.Slot, e.CIdx, e.Block, e.SRoot, e.TRoot = first.Slot, first.CIdx, first.Block, first.SRoot, first.TRoot
						if e.Src == first.Src && e.Tgt == first.Tgt && e.Tgt < 1<<62 {
							e.Tgt += uint64(1 + len(o.Entries)%3) // never the same epochs as the entry they are compared with
						}
					}
				}
				if forks {
					// validators either side of a fork in one batch: same domain type, different fork data
					e.Domain = MkDomain(DomAttester, uint64(1+len(o.Entries)%2))
				}
				o.Entries = append(o.Entries, e)
			}
		case "multi":
			// Neighbouring entries often share their data root (differing in domain only) or their domain
			// (differing in data only), as sync-committee style traffic does.
			share := ch.Pick(3, 0)
			var first *Entry
			for _, k := range keys {
				uniq++
				e := GenEntry(k, MkDomain([4]byte{byte(2 + ch.Pick(9, 0)), byte(ch.Pick(3, 0)), 0, 0}, ch.U64()), uniq)
				if e.Domain[0] == 4 {
					e.Domain[0] = 5
				}
				if first != nil && ch.Pick(4, 0) != 3 {
					switch share {
					case 1:
						e.Data = first.Data
					case 2:
						e.Domain = first.Domain
					}
				}
				e.ByKey = ch.Pick(3, 0) == 1
				o.Entries = append(o.Entries, e)
				if first == nil {
					first = &o.Entries[0]
				}
			}
			if share == 1 {
				rc.Stats.Inc("probe_multisign_entries_sharing_data_root", 1)
			}
		case "att":
			uniq++
			o.Entries = []Entry{attFor(rc, keys[0], model.W[keys[0]], uniq)}
		case "prop":
			uniq++
			wm := model.W[keys[0]]
			slot := uint64(0)
			if wm.Slot >= 0 {
				slot = uint64(wm.Slot) + uint64(ch.Pick(3, 0))
			} else if ch.Pick(2, 0) == 1 {
				slot = ch.U64() >> 1
			}
			e := PropEntry(keys[0], slot, uniq)
			e.PIdx = ch.U64()
			e.ByKey = ch.Pick(2, 0) == 1
			o.Entries = []Entry{e}
		case "gen":
			uniq++
			e := GenEntry(keys[0], MkDomain([4]byte{byte(2 + ch.Pick(9, 0)), 0, 0, 0}, ch.U64()), uniq)
			if e.Domain[0] == 4 {
				e.Domain[0] = 6
			}
			o.Entries = []Entry{e}
		}
		if prop == "C08" && (kind == "atts" || kind == "multi") && len(o.Entries) >= 2 && ch.Pick(6, 0) == 5 {
			// one entry of the batch cannot be signed at all (its domain is not 32 bytes long); the entries around
			// it are ordinary and their signatures must be what they would have been without it
			bad := ch.Pick(len(o.Entries), 0)
			d := o.Entries[bad].Domain
			if ch.Pick(2, 0) == 1 {
				o.Entries[bad].Domain = append(append([]byte{}, d...), 0x44)
			} else {
				o.Entries[bad].Domain = append([]byte{}, d[:31]...)
			}
			rc.Stats.Inc("probe_batches_with_one_unsignable_entry", 1)
		}
		scheduled := len(o.Entries) <= 48
		w.a.RulesW.Calls = nil
		ra := w.exec(w.a, o, scheduled)
		desc = append(desc, fmt.Sprintf("%s x%d procs=%d", kind, len(o.Entries), procs))
		rc.Stats.Seen("batch_shapes", fmt.Sprintf("%s/%d/%d", kind, len(o.Entries), procs))
		Monitor(rc, ledger, w.pop, o, ra, r, false)
		got := okVector(ra, len(o.Entries))
		// Reference verdicts (C09: well-formed, authorised requests; advancing ones must be signed).
		var want []bool
		switch kind {
		case "atts", "att", "prop":
			want = model.Apply(o)
		default:
			want = got // no liveness claim is made for generic signing
		}
		if prop == "C08" {
			// The right verdicts in the wrong places: as many entries signed as the reference signs, but not the same ones.
			nw, ng, first := 0, 0, -1
			for i := range want {
				if want[i] {
					nw++
				}
				if got[i] {
					ng++
				}
				if want[i] != got[i] && first < 0 {
					first = i
				}
			}
			if first >= 0 && nw == ng {
				rc.Violate("C08", "verdict-at-wrong-position", fmt.Sprintf("%s of %d (GOMAXPROCS=%d): %d entries were signed, as many as should be, but position %d came back %v where the request at that position, on its own history, must have been %s", kind, len(want), procs, ng, first, ra.States[min(first, len(ra.States)-1)], map[bool]string{true: "signed", false: "refused"}[want[first]]), r)
			}
		}
		for i := range want {
			if want[i] != got[i] {
				p, key := "C09", "verdict-differs-from-reference"
				if !want[i] {
					p, key = "C01", "signed-what-reference-refuses"
					if kind == "prop" {
						p = "C02"
					}
				}
				rc.Violate(p, key, fmt.Sprintf("%s (GOMAXPROCS=%d) position %d of %d: reference says signed=%v, Dirk says %v", kind, procs, i, len(want), want[i], ra.States[min(i, len(ra.States)-1)]), r)
				break
			}
		}
		if len(o.Entries) > procs && len(o.Entries) > 1 {
			nontrivial = true
			rc.Stats.Inc("probe_batch_larger_than_gomaxprocs", 1)
		}
		// Census: every index of the batch is evaluated exactly once.
		if kind == "atts" && len(o.Entries) > 1 {
			seen := map[string]int{}
			for _, c := range w.a.RulesW.Calls {
				for _, k := range c.Keys {
					seen[k]++
				}
			}
			for i := range o.Entries {
				kn := w.pop.Accts[o.Entries[i].Acct].KName
				if seen[kn] != 1 {
					rc.Violate("C09", "index-not-evaluated-exactly-once", fmt.Sprintf("batch of %d (GOMAXPROCS=%d): position %d (key %s) was evaluated %d times", len(o.Entries), procs, i, kn, seen[kn]), r)
					break
				}
			}
		}
		if twin && (kind == "atts") {
			// The same entries, one at a time, on the twin.
			for i := range o.Entries {
				single := &Op{Kind: "att", Client: "client1", Entries: []Entry{o.Entries[i]}}
				rb := w.exec(w.b, single, false)
				if rb.OK(0) != got[i] {
					rc.Violate("C09", "batch-differs-from-one-at-a-time", fmt.Sprintf("batch of %d (GOMAXPROCS=%d) position %d: batch verdict %v, one-at-a-time verdict %v for the same request on an identical history", len(o.Entries), procs, i, ra.States[min(i, len(ra.States)-1)], rb.States), r)
					break
				}
			}
			rc.Stats.Inc("twin_comparisons", int64(len(o.Entries)))
		}
	}
	if nontrivial || len(desc) > 1 {
		rc.Stats.Seen("cases", hexShort(h32(desc, rc.Seed)))
	}
	rc.Sample = map[string]any{"gomaxprocs": procs, "rounds": desc, "released": ledger.N}
}

// runScatterTable checks, exhaustively over n in [1,600] for one GOMAXPROCS value per run,
// that util.Scatter hands out (offset, entries) pairs that partition [0,n) exactly.
func runScatterTable(t *testing.T, rc *RunCtx) {
	idx := int(rc.Seed % 64)
	procs := idx + 1
	prev := runtime.GOMAXPROCS(procs)
	defer runtime.GOMAXPROCS(prev)
	for n := 1; n <= 600; n++ {
		cover := make([]int, n)
		var mu sync.Mutex
		_, err := util.Scatter(n, func(offset, entries int, _ *sync.RWMutex) (any, error) {
			mu.Lock()
			defer mu.Unlock()
			for i := offset; i < offset+entries; i++ {
				if i >= 0 && i < n {
					cover[i]++
				} else {
					cover[0] += 1000
				}
			}
			return nil, nil
		})
		if err != nil {
			rc.Violate("C09", "scatter-error", fmt.Sprintf("Scatter(%d) with GOMAXPROCS=%d: %v", n, procs, err), n)
			return
		}
		for i, c := range cover {
			if c != 1 {
				rc.Violate("C09", "scatter-not-a-partition", fmt.Sprintf("Scatter(%d) with GOMAXPROCS=%d: index %d handed out %d times", n, procs, i, c), n)
				return
			}
		}
		rc.Stats.Inc("scatter_pairs_checked", 1)
		rc.Stats.Seen("cases", fmt.Sprintf("scatter/%d/%d", n, procs))
	}
	rc.Sample = map[string]any{"scatter_table_gomaxprocs": procs, "n": "1..600"}
}

func init() {
	propRunners["C08"] = func(t *testing.T, rc *RunCtx) { runBatch(t, rc, "C08") }
	propRunners["C09"] = func(t *testing.T, rc *RunCtx) { runBatch(t, rc, "C09") }
	ownProps["C09"] = map[string]bool{}
}
