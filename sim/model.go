package sim

import (
	"fmt"
	"math"
)

// Reference model of the slashing-protection state machine, written from the statements of
// C01, C02 and C09 (not from the implementation):
//   - an attestation is signed iff its domain type is attester, target > source or both are 0,
//     target is higher than every target signed before and source is not lower than any source
//     signed before for that key;
//   - a proposal is signed iff its domain type is proposer and its slot is higher than every slot
//     signed before for that key;
//   - values that cannot be recorded (>= 2^63) are never signed (C09 scopes liveness to < 2^63;
//     C01/C02 demand safety for the whole range);
//   - a batch is one atomic multi-key operation; a batch naming one key twice signs nothing and
//     changes nothing.

// ModelState maps key index -> watermark.
type ModelState struct {
	W []Watermark
}

// NewModelState creates the state of n keys that never signed.
func NewModelState(n int) *ModelState {
	m := &ModelState{W: make([]Watermark, n)}
	for i := range m.W {
		m.W[i] = NoWatermark
	}
	return m
}

// Clone copies the state.
func (m *ModelState) Clone() *ModelState {
	c := &ModelState{W: make([]Watermark, len(m.W))}
	copy(c.W, m.W)
	return c
}

// Key renders the state canonically.
func (m *ModelState) Key() string { return fmt.Sprint(m.W) }

func domType(d []byte) (t [4]byte) {
	copy(t[:], d)
	return
}

func attOK(w Watermark, e *Entry) bool {
	if len(e.Domain) != 32 || domType(e.Domain) != DomAttester {
		return false
	}
	if e.Src > math.MaxInt64 || e.Tgt > math.MaxInt64 {
		return false
	}
	if (e.Src != 0 || e.Tgt != 0) && e.Tgt <= e.Src {
		return false
	}
	if w.Tgt >= 0 && e.Tgt <= uint64(w.Tgt) {
		return false
	}
	if w.Src >= 0 && e.Src < uint64(w.Src) {
		return false
	}
	return true
}

func propOK(w Watermark, e *Entry) bool {
	if len(e.Domain) != 32 || domType(e.Domain) != DomProposer {
		return false
	}
	if e.PSlot > math.MaxInt64 {
		return false
	}
	if w.Slot >= 0 && e.PSlot <= uint64(w.Slot) {
		return false
	}
	return true
}

// Apply runs one fault-free, authorised operation against the model and returns the per-position
// verdicts (true = signed).
func (m *ModelState) Apply(o *Op) []bool {
	out := make([]bool, len(o.Entries))
	for _, e := range o.Entries {
		if e.Acct < 0 {
			return out // unknown account anywhere in the request: nothing signed, nothing changed
		}
	}
	switch o.Kind {
	case "att", "atts":
		seen := map[int]bool{}
		for _, e := range o.Entries {
			if seen[e.Acct] {
				return out // duplicate key: nothing signed, nothing changed
			}
			seen[e.Acct] = true
		}
		for i := range o.Entries {
			e := &o.Entries[i]
			if attOK(m.W[e.Acct], e) {
				out[i] = true
				m.W[e.Acct].Src, m.W[e.Acct].Tgt = int64(e.Src), int64(e.Tgt)
			}
		}
	case "prop":
		e := &o.Entries[0]
		if propOK(m.W[e.Acct], e) {
			out[0] = true
			m.W[e.Acct].Slot = int64(e.PSlot)
		}
	case "gen", "multi":
		// Generic signing keeps no state; a request naming one key twice is refused as a whole; slashable
		// domain types and (without an administrator address) voluntary exits are refused per position.
		seen := map[int]bool{}
		for _, e := range o.Entries {
			if seen[e.Acct] {
				return out
			}
			seen[e.Acct] = true
		}
		for i := range o.Entries {
			dt := domType(o.Entries[i].Domain)
			out[i] = len(o.Entries[i].Domain) == 32 && dt != DomAttester && dt != DomProposer && dt != DomExit
		}
	}
	return out
}

// ApplyAbandoned gives every state an operation may leave behind when its client abandoned it while it was
// in flight and saw the verdicts got: a position reported as signed must be one the model signs, and its
// effect is recorded; a position not reported as signed that the model would have signed may or may not
// have left its record (the server may stop early, or finish the work and have nobody to tell).
func (m *ModelState) ApplyAbandoned(o *Op, got []bool) []*ModelState {
	full := m.Clone()
	want := full.Apply(o)
	var open []int
	for i := range want {
		if i < len(got) && got[i] && !want[i] {
			return nil
		}
		if want[i] && !(i < len(got) && got[i]) {
			open = append(open, i)
		}
	}
	if len(open) > 8 {
		open = open[:8]
	}
	var out []*ModelState
	for mask := 0; mask < 1<<len(open); mask++ {
		st := full.Clone()
		for b, i := range open {
			if mask&(1<<b) == 0 {
				// effect of position i absent: its key keeps the watermark it had (keys are distinct within a request)
				st.W[o.Entries[i].Acct] = m.W[o.Entries[i].Acct]
			}
		}
		out = append(out, st)
	}
	return out
}
