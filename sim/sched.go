package sim

import (
	"crypto/sha256"
	"encoding/hex"
	"errors"
	"fmt"
	"runtime"
	"sort"
	"sync"
	"sync/atomic"

	"github.com/attestantio/dirk/util/verifhook"
)

// ErrInjected is the error returned by a fault-injected dependency call.
var ErrInjected = errors.New("verif: injected fault")

// errAborted is returned to threads that are unwound at the end of a run or after a crash.
var errAborted = errors.New("verif: aborted (instance dead or run over)")

// Park kinds.
const (
	KStart     = "start"
	KLock      = "lock"
	KPoint     = "point"
	KRulesPre  = "rules-pre"
	KRulesPost = "rules-post"
	KSign      = "sign"
	KSend      = "send"
	KReply     = "reply"
)

// Resume tells a parked thread how to continue.
type Resume struct {
	Err    error  // non-nil: the guarded call fails with this error
	Goexit bool   // lock parks only: terminate the goroutine (deferred unlocks run)
	Fault  string // name of an injected fault other than a plain error (interpreted by the wrapper)
}

// Task is one client request (or one harness-initiated call chain).
type Task struct {
	ID         int
	Name       string
	Inst       *Instance
	InvokeStep int
	ReturnStep int
	Started    bool
	Done       bool
	Completed  bool // fn returned normally (not Goexit, not panic)
	Panic      any
	fn         func(t *Task)
	Result     any
	Steps      int
	// Cancel, when set, is the client abandoning the request; Cancelled records that it did.
	Cancel    func()
	Cancelled bool
	// Background: the housekeeping threads of an instance, adopted when it was opened. They stay parked across
	// runs (a run ends when only they are left) and are unwound when their instance goes or the scheduler closes.
	Background bool
}

// Park is a thread parked at a yield point.
type Park struct {
	Task  *Task
	Kind  string
	Label string
	Key   string
	Mutex any
	Inst  *Instance
	Meta  any
	ch    chan Resume
	seq   int
}

func (p *Park) String() string {
	return fmt.Sprintf("t%d:%s/%s/%s", p.Task.ID, p.Kind, p.Label, p.Key)
}

// SchedCfg configures the scheduler for one run.
type SchedCfg struct {
	StayBias float64
	MaxSteps int
	// Fault is asked, for the thread about to be released, whether to inject a fault.
	Fault func(s *Sched, p *Park) Resume
	// PreStep runs with everything parked, before a thread is chosen; returning true means it
	// changed the world (crash, clock jump, new tasks) and the loop must re-evaluate.
	PreStep func(s *Sched, parked []*Park) bool
	// Action is like PreStep but runs with the hooks live (not in direct mode): for environment events that
	// wake threads of the system under test, such as a client giving up on its request.
	Action func(s *Sched, parked []*Park) bool
	// Invariant runs with everything parked after every step.
	Invariant func(s *Sched)
	// StopOnViolation ends the run as soon as a violation has been recorded.
	StopOnViolation bool
	// DeadlockProperty is the property a deadlock is reported under.
	DeadlockProperty string
}

// Sched is the one-thread-at-a-time scheduler.
type Sched struct {
	// stalls: tasks that are passed over for a while (see Stall, StallWhen).
	stalls  []*stall
	rc      *RunCtx
	cfg     SchedCfg
	mu      sync.Mutex
	parked  []*Park
	seq     int
	running *Task
	Tasks   []*Task
	Step    int
	direct  atomic.Bool
	unwind  atomic.Bool
	// booting: an instance is being opened; hook calls from any goroutine but the opener's park even in direct
	// mode (they come from background goroutines the instance started), attributed to the housekeeping task.
	booting  atomic.Bool
	bootGoid uint64
	KeyName  func([]byte) string
	stores   map[any]*Instance
	sig      []byte // running hash of the schedule projection
	Outcome  string
}

var curSched atomic.Pointer[Sched]

func init() {
	verifhook.PointHandler = func(store any, op string, key []byte) error {
		if s := curSched.Load(); s != nil {
			return s.onPoint(store, op, key)
		}
		return nil
	}
	verifhook.PointDoneHandler = func(store any, op string, key []byte) {
		if s := curSched.Load(); s != nil {
			s.onPointDone(store, op, key)
		}
	}
	verifhook.BeforeLockHandler = func(m any, label string, key []byte) {
		if s := curSched.Load(); s != nil {
			s.onBeforeLock(m, label, key)
		}
	}
}

// NewSched creates a scheduler and makes it current.
func NewSched(rc *RunCtx, cfg SchedCfg) *Sched {
	if cfg.MaxSteps == 0 {
		cfg.MaxSteps = 400
	}
	s := &Sched{rc: rc, cfg: cfg, stores: map[any]*Instance{}, KeyName: func(b []byte) string { return hexShort(b) }}
	s.direct.Store(true)
	curSched.Store(s)
	return s
}

// Close detaches the scheduler.
func (s *Sched) Close() {
	s.AbortBackground(nil)
	curSched.CompareAndSwap(s, nil)
}

// RegisterStore associates a store pointer with an instance.
func (s *Sched) RegisterStore(store any, inst *Instance) {
	s.mu.Lock()
	s.stores[store] = inst
	s.mu.Unlock()
}

func (s *Sched) instOf(store any) *Instance {
	s.mu.Lock()
	defer s.mu.Unlock()
	return s.stores[store]
}

// Direct runs f on the scheduler goroutine with all hooks passing straight through.
func (s *Sched) Direct(f func()) {
	prev := s.direct.Swap(true)
	defer s.direct.Store(prev)
	f()
}

// Spawn creates a task; its goroutine parks immediately at its start point.
func (s *Sched) Spawn(name string, inst *Instance, fn func(t *Task)) *Task {
	t := &Task{ID: len(s.Tasks), Name: name, Inst: inst, fn: fn, InvokeStep: -1, ReturnStep: -1}
	s.Tasks = append(s.Tasks, t)
	p := &Park{Task: t, Kind: KStart, Label: name, Inst: inst, ch: make(chan Resume, 1)}
	s.mu.Lock()
	p.seq = s.seq
	s.seq++
	s.parked = append(s.parked, p)
	s.mu.Unlock()
	go func() {
		defer func() {
			if r := recover(); r != nil {
				buf := make([]byte, 4096)
				buf = buf[:runtime.Stack(buf, false)]
				t.Panic = fmt.Sprintf("%v\n%s", r, buf)
			}
			s.mu.Lock()
			t.Done = true
			t.ReturnStep = s.Step
			s.mu.Unlock()
		}()
		r := <-p.ch
		if r.Err != nil {
			return
		}
		t.Started = true
		t.fn(t)
		t.Completed = true
	}()
	return t
}

// Yield parks the calling goroutine at a yield point and returns how to continue.
// In direct mode it returns immediately.
func (s *Sched) Yield(kind, label, key string, mutex any, inst *Instance, meta any) Resume {
	if s.passThrough() {
		return Resume{}
	}
	p := &Park{Kind: kind, Label: label, Key: key, Mutex: mutex, Inst: inst, Meta: meta, ch: make(chan Resume, 1)}
	s.mu.Lock()
	p.Task = s.running
	if p.Inst == nil && p.Task != nil {
		p.Inst = p.Task.Inst
	}
	p.seq = s.seq
	s.seq++
	s.parked = append(s.parked, p)
	s.mu.Unlock()
	return <-p.ch
}

// passThrough reports whether a hook call from the calling goroutine continues without parking.
func (s *Sched) passThrough() bool {
	if !s.direct.Load() {
		return false
	}
	return !s.booting.Load() || goid() == s.bootGoid
}

// goid returns the identifier of the calling goroutine (only consulted while an instance is being opened).
func goid() uint64 {
	var buf [64]byte
	b := buf[:runtime.Stack(buf[:], false)]
	var id uint64
	for _, c := range b[len("goroutine "):] {
		if c < '0' || c > '9' {
			break
		}
		id = id*10 + uint64(c-'0')
	}
	return id
}

// BeginBoot is called before an instance is opened and EndBoot after: whatever goroutines the instance starts for
// itself run, with the hooks live, until each is parked at a yield point or blocked; from then on they are scheduled
// like request threads, as the housekeeping task of that instance.
func (s *Sched) BeginBoot(name string) *Task {
	t := &Task{ID: len(s.Tasks), Name: "housekeeping@" + name, InvokeStep: s.Step, ReturnStep: -1, Started: true, Done: true, Background: true}
	s.Tasks = append(s.Tasks, t)
	s.mu.Lock()
	s.running = t
	s.mu.Unlock()
	s.bootGoid = goid()
	s.booting.Store(true)
	return t
}

// EndBoot finishes what BeginBoot started.
func (s *Sched) EndBoot(t *Task, inst *Instance) {
	bubbleWait()
	s.booting.Store(false)
	t.Inst = inst
	s.mu.Lock()
	s.running = nil
	n := 0
	for _, p := range s.parked {
		if p.Task == t {
			p.Inst = inst
			n++
		}
	}
	s.mu.Unlock()
	if n > 0 {
		s.rc.Stats.Inc("probe_background_threads_parked_at_start_up", int64(n))
		s.rc.Logf("t%d: %d housekeeping thread(s) of %s parked at start-up", t.ID, n, t.Name)
	}
}

func (s *Sched) onPoint(store any, op string, key []byte) error {
	if s.passThrough() {
		return nil
	}
	if s.direct.Load() {
		// A background goroutine of an instance that is being opened: the store may not be registered yet.
		k := ""
		if len(key) > 0 {
			k = s.KeyName(key)
		}
		r := s.Yield(KPoint, op, k, nil, nil, nil)
		if inst := s.instOf(store); inst != nil && r.Err == nil {
			inst.inStoreOp.Add(1)
		}
		return r.Err
	}
	inst := s.instOf(store)
	if inst == nil {
		return nil
	}
	if inst.Closed && op == "batchstore" {
		// badger's WriteBatch.Flush never returns on a closed database (it waits for a watermark that
		// nobody advances any more, holding the batch mutex its own callback needs).  The request would
		// hang for ever without producing a signature; the simulator cannot run a goroutine that is
		// blocked on a mutex, so it makes the call fail instead and counts it.
		s.rc.Stats.Inc("emulated_batchstore_on_closed_store", 1)
		return errors.New("verif: batch store on a closed database (would hang in badger)")
	}
	k := ""
	if len(key) > 0 {
		k = s.KeyName(key)
	}
	inst.inStoreOp.Add(1)
	r := s.Yield(KPoint, op, k, nil, inst, nil)
	if r.Err == nil && inst.Closed && op == "batchstore" {
		s.rc.Stats.Inc("emulated_batchstore_on_closed_store", 1)
		r.Err = errors.New("verif: batch store on a closed database (would hang in badger)")
	}
	if r.Err != nil {
		inst.inStoreOp.Add(-1)
	}
	return r.Err
}

func (s *Sched) onPointDone(store any, op string, _ []byte) {
	if s.direct.Load() {
		return
	}
	if inst := s.instOf(store); inst != nil {
		inst.inStoreOp.Add(-1)
		if inst.OnStoreDone != nil {
			inst.OnStoreDone(op)
		}
	}
}

func (s *Sched) onBeforeLock(m any, label string, key []byte) {
	if s.passThrough() {
		return
	}
	k := ""
	if len(key) > 0 {
		k = s.KeyName(key)
	}
	r := s.Yield(KLock, label, k, m, nil, nil)
	if r.Goexit {
		runtime.Goexit()
	}
}

func (s *Sched) snapshot() []*Park {
	s.mu.Lock()
	ps := make([]*Park, len(s.parked))
	copy(ps, s.parked)
	s.mu.Unlock()
	sort.SliceStable(ps, func(i, j int) bool {
		a, b := ps[i], ps[j]
		if a.Task.ID != b.Task.ID {
			return a.Task.ID < b.Task.ID
		}
		if a.Kind != b.Kind {
			return a.Kind < b.Kind
		}
		if a.Label != b.Label {
			return a.Label < b.Label
		}
		if a.Key != b.Key {
			return a.Key < b.Key
		}
		return a.seq < b.seq
	})
	return ps
}

func (s *Sched) remove(p *Park) {
	s.mu.Lock()
	for i, q := range s.parked {
		if q == p {
			s.parked = append(s.parked[:i], s.parked[i+1:]...)
			break
		}
	}
	s.mu.Unlock()
}

func tryLockable(m any) bool {
	switch l := m.(type) {
	case *sync.Mutex:
		if l.TryLock() {
			l.Unlock()
			return true
		}
		return false
	case *sync.RWMutex:
		if l.TryLock() {
			l.Unlock()
			return true
		}
		return false
	default:
		return true
	}
}

// Enabled reports whether a parked thread can run without blocking on a real mutex.
func (s *Sched) Enabled(p *Park) bool {
	if p.Kind == KLock {
		return tryLockable(p.Mutex)
	}
	return true
}

// Release lets one parked thread run until it parks again or finishes.
func (s *Sched) Release(p *Park, r Resume) {
	s.remove(p)
	s.mu.Lock()
	s.running = p.Task
	s.mu.Unlock()
	if p.Kind == KStart && r.Err == nil {
		p.Task.InvokeStep = s.Step
	}
	p.Task.Steps++
	p.ch <- r
}

func (s *Sched) note(p *Park, what string) {
	h := sha256.New()
	h.Write(s.sig)
	fmt.Fprintf(h, "%d|%s|%s|%s|%s", p.Task.ID, p.Kind, p.Label, p.Key, what)
	s.sig = h.Sum(nil)[:12]
}

// ScheduleSignature identifies the interleaving of this run (projection onto task, kind, label, key).
func (s *Sched) ScheduleSignature() string { return hex.EncodeToString(s.sig) }

// Quiesce waits until every goroutine in the bubble is durably blocked.
func (s *Sched) Quiesce() { bubbleWait() }

// Parked returns the canonical list of parked threads (after Quiesce).
func (s *Sched) Parked() []*Park { return s.snapshot() }

// Run drives the scheduler until every task has finished, a deadlock is found, the step
// budget is exhausted or (with StopOnViolation) a violation has been recorded.
func (s *Sched) Run() string {
	s.direct.Store(false)
	defer s.direct.Store(true)
	for {
		bubbleWait()
		parked := s.snapshot()
		if s.cfg.Invariant != nil {
			s.Direct(func() { s.cfg.Invariant(s) })
		}
		if s.cfg.StopOnViolation && len(s.rc.Viol) > 0 {
			s.Outcome = "violation"
			break
		}
		if onlyBackground(parked) {
			s.Outcome = "done"
			break
		}
		if s.cfg.PreStep != nil {
			changed := false
			s.Direct(func() { changed = s.cfg.PreStep(s, parked) })
			if changed {
				continue
			}
		}
		if s.cfg.Action != nil && s.cfg.Action(s, parked) {
			continue
		}
		var enabled []*Park
		for _, p := range parked {
			if s.Enabled(p) {
				enabled = append(enabled, p)
			}
		}
		if len(enabled) == 0 {
			s.Outcome = "deadlock"
			desc := ""
			for _, p := range parked {
				desc += p.String() + " "
			}
			prop := s.cfg.DeadlockProperty
			if prop == "" {
				prop = s.rc.Property
			}
			s.rc.Stats.Inc("deadlocks", 1)
			s.rc.Violate(prop, "deadlock", "no parked thread can proceed: "+desc, s.Step)
			break
		}
		if s.Step >= s.cfg.MaxSteps {
			s.Outcome = "truncated"
			s.rc.Truncated = true
			break
		}
		// Housekeeping threads last: the simplest schedule leaves them where they are.
		sort.SliceStable(enabled, func(i, j int) bool {
			return !enabled[i].Task.Background && enabled[j].Task.Background
		})
		// Canonical order with the running task's threads first: decision 0 = keep going.
		if s.running != nil {
			sort.SliceStable(enabled, func(i, j int) bool {
				return enabled[i].Task == s.running && enabled[j].Task != s.running
			})
		}
		// Stalled tasks (a slow client, a busy instance) are passed over for a while, as long as anybody else can run.
		for _, st := range s.stalls {
			if st.when != nil {
				for _, p := range parked {
					if p.Task == st.task && st.when(p) {
						st.from, st.when = s.Step, nil // the stall begins where the task has just arrived
						break
					}
				}
			}
			if st.when == nil && s.Step >= st.from && s.Step < st.from+st.n {
				var others []*Park
				for _, p := range enabled {
					if p.Task != st.task {
						others = append(others, p)
					}
				}
				if len(others) > 0 {
					enabled = others
					s.rc.Stats.Inc("steps_with_a_stalled_task", 1)
				}
			}
		}
		idx := s.rc.Ch.Pick(len(enabled), s.cfg.StayBias)
		p := enabled[idx]
		var r Resume
		if s.cfg.Fault != nil && p.Kind != KStart {
			r = s.cfg.Fault(s, p)
		}
		what := "run"
		if r.Err != nil || r.Fault != "" {
			what = "fault:" + r.Fault
			if r.Err != nil {
				what += ":err"
			}
		}
		s.Step++
		s.rc.Logf("s%d %s %s", s.Step, what, p.String())
		s.note(p, what)
		s.Release(p, r)
	}
	s.Unwind()
	s.rc.Stats.Inc("steps", int64(s.Step))
	return s.Outcome
}

// Stall makes the scheduler pass a task over for n steps from a given step on, whenever another thread can run.
type stall struct {
	task *Task
	from int
	n    int
	when func(*Park) bool
}

func (s *Sched) Stall(t *Task, from, n int) {
	s.stalls = append(s.stalls, &stall{task: t, from: from, n: n})
}

// StallWhen is Stall beginning at the first step at which a parked thread of the task satisfies when.
func (s *Sched) StallWhen(t *Task, when func(*Park) bool, n int) {
	s.stalls = append(s.stalls, &stall{task: t, n: n, when: when})
}

func onlyBackground(parked []*Park) bool {
	for _, p := range parked {
		if !p.Task.Background {
			return false
		}
	}
	return true
}

// Unwind aborts every parked request thread (and every thread that parks while doing so) until none remain.
// Housekeeping threads stay parked: they outlive the run.
func (s *Sched) Unwind() {
	s.direct.Store(false)
	for i := 0; i < 100000; i++ {
		bubbleWait()
		parked := s.snapshot()
		if onlyBackground(parked) {
			break
		}
		for _, p := range parked {
			if !p.Task.Background {
				s.abort(p)
			}
		}
	}
	s.direct.Store(true)
	bubbleWait()
}

// AbortBackground unwinds the housekeeping threads that are still parked (all of them, or those of one instance).
func (s *Sched) AbortBackground(inst *Instance) {
	n := 0
	for _, p := range s.snapshot() {
		if p.Task.Background && (inst == nil || p.Task.Inst == inst) {
			s.abort(p)
			n++
		}
	}
	if n > 0 {
		bubbleWait() // they run to their next blocking point before the caller goes on (parks exist in bubbles only)
	}
}

func (s *Sched) abort(p *Park) {
	s.remove(p)
	switch p.Kind {
	case KLock:
		p.ch <- Resume{Goexit: true}
	default:
		p.ch <- Resume{Err: errAborted}
	}
}

// AbortInstance unwinds every parked thread that belongs to a dead instance (zombies after a crash).
func (s *Sched) AbortInstance(inst *Instance) {
	for i := 0; i < 100000; i++ {
		bubbleWait()
		n := 0
		for _, p := range s.snapshot() {
			if p.Task.Inst == inst || p.Inst == inst {
				s.mu.Lock()
				s.running = p.Task
				s.mu.Unlock()
				s.abort(p)
				n++
				break
			}
		}
		if n == 0 {
			break
		}
	}
}

// AllDone reports whether every task has finished.
func (s *Sched) AllDone() bool {
	s.mu.Lock()
	defer s.mu.Unlock()
	for _, t := range s.Tasks {
		if !t.Done {
			return false
		}
	}
	return true
}
