package sim

import (
	"bytes"
	"fmt"
	"strconv"
	"testing"
	"time"

	"github.com/attestantio/dirk/util"
	"github.com/herumi/bls-eth-go-binary/bls"
	pb "github.com/wealdtech/eth2-signer-api/pb/v1"
)

// coordinator drives receiver handlers directly, as the authenticated caller `as`.
type coordinator struct {
	c *Cluster
}

func (co *coordinator) endpoints(parts []*Node) []*pb.Endpoint {
	out := make([]*pb.Endpoint, len(parts))
	for i, p := range parts {
		out[i] = &pb.Endpoint{Id: p.ID, Name: p.Name, Port: p.Port}
	}
	return out
}

func (co *coordinator) prepare(to *Node, as, account string, t uint32, parts []*Node) error {
	return to.guard("prepare", func() error {
		_, err := to.Recv.Prepare(to.PeerCtx(as), roundTrip(&pb.PrepareRequest{Account: account, Passphrase: []byte("pass"), Threshold: t, Participants: co.endpoints(parts)}, &pb.PrepareRequest{}))
		return err
	})
}

func (co *coordinator) prepareWith(to *Node, as, account string, t uint32, eps []*pb.Endpoint) error {
	return to.guard("prepare", func() error {
		_, err := to.Recv.Prepare(to.PeerCtx(as), roundTrip(&pb.PrepareRequest{Account: account, Passphrase: []byte("pass"), Threshold: t, Participants: eps}, &pb.PrepareRequest{}))
		return err
	})
}

func (co *coordinator) execute(to *Node, as, account string) error {
	return to.guard("execute", func() error {
		_, err := to.Recv.Execute(to.PeerCtx(as), &pb.ExecuteRequest{Account: account})
		return err
	})
}

func (co *coordinator) commit(to *Node, as, account string) ([]byte, error) {
	var pk []byte
	err := to.guard("commit", func() error {
		r, err := to.Recv.Commit(to.PeerCtx(as), &pb.CommitRequest{Account: account, ConfirmationData: h32("confirm", account)})
		if err == nil {
			pk = r.GetPublicKey()
		}
		return err
	})
	return pk, err
}

func (co *coordinator) abort(to *Node, as, account string) error {
	return to.guard("abort", func() error {
		_, err := to.Recv.Abort(to.PeerCtx(as), &pb.AbortRequest{Account: account})
		return err
	})
}

func (co *coordinator) contribute(to *Node, as, account string, secret []byte, vvec [][]byte) (*pb.ContributeResponse, error) {
	var res *pb.ContributeResponse
	err := to.guard("contribute", func() error {
		r, err := to.Recv.Contribute(to.PeerCtx(as), roundTrip(&pb.ContributeRequest{Account: account, Secret: secret, VerificationVector: vvec}, &pb.ContributeRequest{}))
		res = r
		return err
	})
	return res, err
}

// evalAt evaluates a serialized verification vector at a participant id.
func evalAt(vvec [][]byte, id uint64) []byte {
	pks := make([]bls.PublicKey, len(vvec))
	for i := range vvec {
		if err := pks[i].Deserialize(vvec[i]); err != nil {
			return nil
		}
	}
	var pk bls.PublicKey
	if err := pk.Set(pks, util.BLSID(id)); err != nil {
		return nil
	}
	return pk.Serialize()
}

func pubOfSecret(secret []byte) []byte {
	var sk bls.SecretKey
	if err := sk.Deserialize(secret); err != nil {
		return nil
	}
	return sk.GetPublicKey().Serialize()
}

// CheckShareOwnership verifies, for every untampered contribution the transport carried, that the share
// handed to a participant is the originator's vector evaluated at that participant's id and at no other
// participant's id.
func (c *Cluster) CheckShareOwnership(step int) {
	c.Net.mu.Lock()
	cs := append([]Contribution{}, c.Net.Contributions...)
	c.Net.mu.Unlock()
	for _, x := range cs {
		pk := pubOfSecret(x.Secret)
		if pk == nil || len(x.VVec) == 0 {
			continue
		}
		c.rc.Stats.Inc("share_ownership_checks", 1)
		if !bytes.Equal(pk, evalAt(x.VVec, x.To)) {
			c.rc.Violate("C16", "share-not-for-recipient", fmt.Sprintf("contribution of participant %d handed to participant %d (reply=%v) carries a share that is not its vector evaluated at %d", x.From, x.To, x.Reply, x.To), step)
			return
		}
		for _, n := range c.Nodes {
			if n.ID != x.To && bytes.Equal(pk, evalAt(x.VVec, n.ID)) {
				c.rc.Violate("C16", "share-of-another-participant", fmt.Sprintf("contribution of participant %d handed to participant %d (reply=%v) carries the share of participant %d", x.From, x.To, x.Reply, n.ID), step)
				return
			}
		}
	}
}

type c16case struct {
	Caller string // peer | peer-other | client | empty | unknown | peer-uppercase
	Msg    string
	State  string
	Named  bool // earlier on, a genuine peer's Prepare for another account named the caller among its participants
}

func (c c16case) String() string {
	if c.Named {
		return c.Caller + "/" + c.Msg + "/" + c.State + "/named-in-an-earlier-participant-list"
	}
	return c.Caller + "/" + c.Msg + "/" + c.State
}

func c16Table() []c16case {
	var out []c16case
	for _, caller := range []string{"peer", "peer-not-in-generation", "client-with-all-permissions", "empty", "unknown", "peer-name-uppercase", "peer-name-with-suffix",
		"peer-name-as-host-of-a-domain", "peer-name-with-trailing-dot", "peer-name-prefix", "peer-name-with-port", "peer-name-with-space"} {
		for _, msg := range []string{"prepare", "execute", "contribute", "commit", "abort"} {
			for _, st := range []string{"none", "prepared", "executed", "committed", "aborted", "expired"} {
				out = append(out, c16case{caller, msg, st, false})
			}
		}
	}
	for _, caller := range []string{"client-with-all-permissions", "unknown", "peer-name-uppercase", "peer-name-with-suffix",
		"peer-name-as-host-of-a-domain", "peer-name-with-trailing-dot", "peer-name-prefix", "peer-name-with-port", "peer-name-with-space"} {
		for _, msg := range []string{"prepare", "execute", "contribute", "commit", "abort"} {
			for _, st := range []string{"none", "prepared", "executed", "committed", "aborted", "expired"} {
				out = append(out, c16case{caller, msg, st, true})
			}
		}
	}
	return out
}

// runDKGCallers is the body of C16.
func runDKGCallers(t *testing.T, rc *RunCtx) {
	bls.SetRandFunc(newSeedReader(rc.Seed))
	defer bls.SetRandFunc(nil)
	table := c16Table()
	worker, _ := strconv.Atoi(rc.Param("mw", "0"))
	workers, _ := strconv.Atoi(rc.Param("mW", "1"))
	base, _ := strconv.ParseUint(rc.Param("_seed_base", "0"), 10, 64)
	idx := int(rc.Seed-base)*workers + worker
	if idx >= len(table) {
		// Beyond the table: random generations whose contributions feed the share-ownership monitor, and (a third)
		// several callers' messages in flight at one instance at the same time.
		if rc.Ch.Pick(3, 0) == 2 {
			runDKGCallersConcurrent(t, rc)
			return
		}
		runDKGOwnership(t, rc)
		return
	}
	if idx == 0 {
		rc.Stats.Inc("matrix_total", int64(len(table)))
	}
	rc.Stats.Inc("matrix_cases", 1)
	tc := table[idx]
	rc.Stats.Seen("cases", tc.String())
	rc.Sample = map[string]any{"case": tc.String(), "table_size": len(table)}
	s := NewSched(rc, SchedCfg{MaxSteps: 20000})
	defer s.Close()
	timeout := 70 * time.Second
	// In half of the runs the peer table also lists a peer with identifier 0 (accepted by the peers service; only an
	// instance's own identifier must be non-zero): "no identifier found" and "identifier 0" must not be confused.
	var extra map[uint64]string
	if rc.Ch.Pick(2, 0) == 1 {
		extra = map[uint64]string{0: "signer-zero:9100"}
		rc.Stats.Inc("probe_peer_table_lists_identifier_zero", 1)
	}
	c := NewCluster(t, rc, s, ClusterCfg{IDs: []uint64{1, 2, 3, 4}, Timeout: timeout, ExtraPeers: extra, Perms: FullPermissions("client1", "SIGNER-02", "signer-02x")})
	defer c.Close()
	co := &coordinator{c: c}
	// signer-03 (id 3) is a configured peer that takes no part in the generation; its id lies between those of
	// the participants (1, 2, 4).
	parts := []*Node{c.Nodes[0], c.Nodes[1], c.Nodes[3]}
	outsider := c.Nodes[2]
	target := parts[1] // signer-02, id 2
	legit := parts[0].Name
	acct := "Wallet 3/acct16"
	const th = 2
	must := func(what string, err error) bool {
		if err != nil {
			rc.Violate("HARNESS", "setup-failed", fmt.Sprintf("%s: %s: %v", tc, what, err), 0)
			return false
		}
		return true
	}
	prepAll := func() bool {
		for _, p := range parts {
			if !must("prepare "+p.Name, co.prepare(p, legit, acct, th, parts)) {
				return false
			}
		}
		return true
	}
	execAll := func() bool {
		for _, p := range parts {
			if !must("execute "+p.Name, co.execute(p, legit, acct)) {
				return false
			}
		}
		return true
	}
	commitAll := func() bool {
		for _, p := range parts {
			_, err := co.commit(p, legit, acct)
			if !must("commit "+p.Name, err) {
				return false
			}
		}
		return true
	}
	// Bring the target into the requested session state.
	switch tc.State {
	case "prepared":
		if !prepAll() {
			return
		}
	case "executed":
		if !prepAll() || !execAll() {
			return
		}
	case "committed":
		if !prepAll() || !execAll() || !commitAll() {
			return
		}
	case "aborted":
		if !prepAll() || !must("abort", co.abort(target, legit, acct)) {
			return
		}
	case "expired":
		if !prepAll() {
			return
		}
		time.Sleep(timeout + time.Second)
		rc.Stats.Inc("sim_time_ms", int64((timeout+time.Second)/time.Millisecond))
	}
	caller := map[string]string{"peer": parts[2].Name, "peer-not-in-generation": outsider.Name, "client-with-all-permissions": "client1", "empty": "", "unknown": "nobody", "peer-name-uppercase": "SIGNER-02", "peer-name-with-suffix": "signer-02x",
		"peer-name-as-host-of-a-domain": "signer-02.clients.example.com", "peer-name-with-trailing-dot": "signer-02.", "peer-name-prefix": "signer-0", "peer-name-with-port": "signer-02:9001", "peer-name-with-space": " signer-02"}[tc.Caller]
	isPeer := tc.Caller == "peer"
	// The second part of the table: earlier on, a genuine peer opened a generation for another account at the target whose
	// participant list names the caller (an endpoint the target knows nothing of, with an identifier of its own). What a
	// peer wrote into a request does not make anybody a peer.
	msgAcct := acct
	if tc.Named {
		namedID := uint64(9)
		if rc.Ch.Pick(2, 0) == 1 {
			// ... under the identifier 0 (the value "no identifier" also has), and the caller's message is for that
			// very generation.
			namedID = 0
			msgAcct = "Wallet 3/earlier16"
			rc.Stats.Inc("probe_caller_named_with_identifier_zero", 1)
		}
		eps := append(co.endpoints(parts), &pb.Endpoint{Id: namedID, Name: caller, Port: 9009})
		err := co.prepareWith(target, legit, "Wallet 3/earlier16", 3, eps)
		rc.Logf("%s: earlier generation naming the caller as participant: err=%v", tc, err)
		rc.Stats.Inc("probe_caller_named_in_an_earlier_participant_list", 1)
		if p := c.anyPanic(); p != "" {
			rc.Violate("C16", "panic", fmt.Sprintf("%s: %s", tc, p), 0)
			return
		}
	}

	// A contribution that would verify at the target: a dishonest-but-consistent one for the target's id.
	sec, vv := maliciousContribution(target.ID, th)
	var err error
	var cres *pb.ContributeResponse
	if msgAcct != acct {
		sec, vv = maliciousContribution(target.ID, 3) // that generation's threshold
	}
	switch tc.Msg {
	case "prepare":
		err = co.prepare(target, caller, msgAcct, th, parts)
	case "execute":
		err = co.execute(target, caller, msgAcct)
	case "contribute":
		cres, err = co.contribute(target, caller, msgAcct, sec, vv)
	case "commit":
		_, err = co.commit(target, caller, msgAcct)
	case "abort":
		err = co.abort(target, caller, msgAcct)
	}
	rc.Logf("%s: caller %q -> err=%v", tc, caller, err)
	if p := c.anyPanic(); p != "" {
		rc.Violate("C16", "panic", fmt.Sprintf("%s: %s", tc, p), 0)
		return
	}
	if tc.Caller == "peer-not-in-generation" {
		// A configured peer outside the generation: its protocol messages are a peer's, but a contribution of
		// its own must never be answered with a participant's share.
		if cres != nil && err == nil && len(cres.GetSecret()) > 0 {
			pk := pubOfSecret(cres.GetSecret())
			for _, n := range parts {
				if bytes.Equal(pk, evalAt(cres.GetVerificationVector(), n.ID)) {
					rc.Violate("C16", "share-of-another-participant", fmt.Sprintf("%s: the reply to peer %s (id %d, not a participant) carries the share of participant %d", tc, outsider.Name, outsider.ID, n.ID), 0)
				}
			}
		}
		if tc.Msg == "contribute" {
			rc.Stats.Inc("outsider_peer_contributions", 1)
		}
		return
	}
	if isPeer {
		// Reply to a peer's contribution must carry only that peer's own share.
		if cres != nil && err == nil {
			pk := pubOfSecret(cres.GetSecret())
			if !bytes.Equal(pk, evalAt(cres.GetVerificationVector(), parts[2].ID)) {
				rc.Violate("C16", "share-not-for-recipient", fmt.Sprintf("%s: the reply to peer %d does not carry the share computed for its id", tc, parts[2].ID), 0)
			}
			for _, n := range parts {
				if n.ID != parts[2].ID && bytes.Equal(pk, evalAt(cres.GetVerificationVector(), n.ID)) {
					rc.Violate("C16", "share-of-another-participant", fmt.Sprintf("%s: the reply to peer %d carries the share of participant %d", tc, parts[2].ID, n.ID), 0)
				}
			}
			rc.Stats.Inc("peer_contribution_replies_checked", 1)
		}
		return
	}
	if err == nil {
		rc.Violate("C16", "non-peer-message-honoured", fmt.Sprintf("%s: %s from caller %q (not a configured peer) was accepted", tc, tc.Msg, caller), 0)
		return
	}
	if cres != nil && len(cres.GetSecret()) > 0 {
		rc.Violate("C16", "share-disclosed-to-non-peer", fmt.Sprintf("%s: a contribution reply with a secret share was returned to caller %q", tc, caller), 0)
		return
	}
	// ... and it changed nothing: the legitimate continuation from this state still works.
	ok := true
	switch tc.State {
	case "none", "aborted", "expired":
		// No session may have been created (or resurrected) by the refused message: a legitimate generation
		// must be able to start and run to completion.
		if tc.State != "none" {
			for _, p := range parts {
				if p != target {
					_ = co.abort(p, legit, acct)
				}
			}
		}
		ok = must("prepare after refusal", co.prepare(target, legit, acct, th, parts))
		if ok {
			for _, p := range parts {
				if p != target {
					ok = ok && must("prepare "+p.Name, co.prepare(p, legit, acct, th, parts))
				}
			}
		}
		ok = ok && execAll() && commitAll()
	case "prepared":
		ok = execAll() && commitAll()
	case "executed":
		ok = commitAll()
	case "committed":
		if target.storedAccount(acct) == nil {
			rc.Violate("C16", "refused-message-changed-state", fmt.Sprintf("%s: the committed account disappeared", tc), 0)
		}
		return
	}
	if !ok {
		// must() recorded a HARNESS violation; re-label: the refused message broke the legitimate run.
		for i := range rc.Viol {
			if rc.Viol[i].Property == "HARNESS" {
				rc.Viol[i] = Violation{Property: "C16", Key: "refused-message-changed-state", Detail: fmt.Sprintf("%s: after the refused %s the legitimate generation could not continue: %s", tc, tc.Msg, rc.Viol[i].Detail)}
			}
		}
		return
	}
	for _, p := range parts {
		if p.storedAccount(acct) == nil {
			rc.Violate("C16", "refused-message-changed-state", fmt.Sprintf("%s: after the refused message the legitimate generation did not produce the account on %s", tc, p.Name), 0)
		}
	}
	rc.Stats.Inc("legit_continuations_ok", 1)
	c.CheckShareOwnership(0)
}

// runDKGCallersConcurrent: 2-4 messages of different callers (participants, a configured peer outside the generation,
// ordinary clients, unknown and look-alike names) for one account are in flight at one instance at the same time, under
// the seeded scheduler.  Whoever else is being served at that instant, a non-peer is refused and gets no share, and a
// participant's contribution is answered with the share computed for that participant and nobody else's.
func runDKGCallersConcurrent(t *testing.T, rc *RunCtx) {
	ch := rc.Ch
	s := NewSched(rc, SchedCfg{StayBias: []float64{0, 0.3, 0.6}[ch.Pick(3, 0)], MaxSteps: 20000})
	defer s.Close()
	c := NewCluster(t, rc, s, ClusterCfg{IDs: []uint64{1, 2, 3, 4}, Timeout: 70 * time.Second, Perms: FullPermissions("client1", "SIGNER-02", "signer-02x")})
	defer c.Close()
	co := &coordinator{c: c}
	parts := []*Node{c.Nodes[0], c.Nodes[1], c.Nodes[3]}
	outsider := c.Nodes[2]
	target := parts[1]
	legit := parts[0].Name
	acct := "Wallet 3/acct16c"
	const th = 2
	for _, p := range parts {
		if err := co.prepare(p, legit, acct, th, parts); err != nil {
			rc.Violate("HARNESS", "setup-failed", err.Error(), 0)
			return
		}
	}
	type caller struct {
		name   string
		id     uint64 // participant id (0 = not a participant)
		isPeer bool
	}
	pool := []caller{{parts[0].Name, parts[0].ID, true}, {parts[2].Name, parts[2].ID, true}, {outsider.Name, 0, true},
		{"client1", 0, false}, {"", 0, false}, {"nobody", 0, false}, {"SIGNER-02", 0, false}, {"signer-02x", 0, false}, {"signer-01.", 0, false}}
	k := 2 + ch.Pick(3, 0)
	type result struct {
		who  caller
		msg  string
		err  error
		cres *pb.ContributeResponse
	}
	res := make([]result, k)
	hasPeer, hasNon := false, false
	for i := 0; i < k; i++ {
		who := pool[ch.Pick(len(pool), 0)]
		if i == 0 {
			who = pool[ch.Pick(2, 0)] // a genuine participant is always among them
		}
		if i == 1 {
			who = pool[3+ch.Pick(len(pool)-3, 0)] // and so is somebody who is not a peer
		}
		msg := "contribute"
		if !who.isPeer && ch.Pick(4, 0) == 3 {
			msg = []string{"abort", "commit", "execute"}[ch.Pick(3, 0)]
		}
		res[i] = result{who: who, msg: msg}
		hasPeer = hasPeer || who.id != 0
		hasNon = hasNon || !who.isPeer
		i := i
		s.Spawn(msg+" as "+who.name, target.Inst, func(_ *Task) {
			switch msg {
			case "contribute":
				sec, vv := maliciousContribution(target.ID, th)
				res[i].cres, res[i].err = co.contribute(target, who.name, acct, sec, vv)
			case "abort":
				res[i].err = co.abort(target, who.name, acct)
			case "commit":
				_, res[i].err = co.commit(target, who.name, acct)
			case "execute":
				res[i].err = co.execute(target, who.name, acct)
			}
		})
	}
	if o := s.Run(); o != "done" {
		rc.Truncated = o == "truncated"
		return
	}
	if p := c.anyPanic(); p != "" {
		rc.Violate("C16", "panic", p, s.Step)
		return
	}
	var desc []string
	for _, r := range res {
		desc = append(desc, fmt.Sprintf("%s as %q -> err=%v", r.msg, r.who.name, r.err))
	}
	rc.Logf("simultaneous callers at %s: %v", target.Name, desc)
	rc.Stats.Inc("concurrent_caller_phases", 1)
	rc.Stats.Seen("cases", fmt.Sprintf("concurrent-callers/%v", desc))
	rc.Sample = map[string]any{"layer": "simultaneous callers at one instance", "callers": desc}
	for _, r := range res {
		switch {
		case !r.who.isPeer:
			rc.Stats.Inc("concurrent_non_peer_messages", 1)
			if r.err == nil {
				rc.Violate("C16", "non-peer-message-honoured", fmt.Sprintf("with %d messages in flight at once (%v): %s from caller %q (not a configured peer) was accepted", k, desc, r.msg, r.who.name), s.Step)
				return
			}
			if r.cres != nil && len(r.cres.GetSecret()) > 0 {
				rc.Violate("C16", "share-disclosed-to-non-peer", fmt.Sprintf("with %d messages in flight at once (%v): caller %q got a secret share", k, desc, r.who.name), s.Step)
				return
			}
		case r.msg == "contribute" && r.err == nil && r.cres != nil:
			pk := pubOfSecret(r.cres.GetSecret())
			if r.who.id != 0 {
				rc.Stats.Inc("concurrent_peer_replies_checked", 1)
				if !bytes.Equal(pk, evalAt(r.cres.GetVerificationVector(), r.who.id)) {
					rc.Violate("C16", "share-not-for-recipient", fmt.Sprintf("with %d messages in flight at once (%v): the reply to participant %d does not carry the share computed for its id", k, desc, r.who.id), s.Step)
					return
				}
			}
			for _, n := range parts {
				if n.ID != r.who.id && bytes.Equal(pk, evalAt(r.cres.GetVerificationVector(), n.ID)) {
					rc.Violate("C16", "share-of-another-participant", fmt.Sprintf("with %d messages in flight at once (%v): the reply to %q carries the share of participant %d", k, desc, r.who.name, n.ID), s.Step)
					return
				}
			}
		}
	}
}

// runDKGOwnership runs a fault-free generation with drawn ids and checks share ownership of every contribution.
func runDKGOwnership(t *testing.T, rc *RunCtx) {
	ch := rc.Ch
	n := 2 + ch.Pick(4, 0)
	th := n/2 + 1 + ch.Pick(n-n/2, 0)
	ids := idSet(rc, ch.Pick(4, 0), n)
	s := NewSched(rc, SchedCfg{StayBias: 0.5, MaxSteps: 20000})
	defer s.Close()
	c := NewCluster(t, rc, s, ClusterCfg{IDs: ids, Order: permute(rc, ids)})
	defer c.Close()
	if n >= 3 && ch.Pick(3, 0) == 2 {
		// A configured peer prepares a generation whose participant list gives, for one identifier, the address
		// of another instance (its own, or a stale entry).  Whatever the victim then sends, a share computed for
		// identifier X goes to the instance that is X, or nowhere.
		co := &coordinator{}
		liar, victim := c.Nodes[ch.Pick(n, 0)], c.Nodes[ch.Pick(n, 0)]
		eps := co.endpoints(c.Nodes)
		x := ch.Pick(n, 0)
		y := ch.Pick(n, 0)
		if c.Nodes[x] != victim && c.Nodes[y] != victim && x != y {
			eps[x].Name, eps[x].Port = c.Nodes[y].Name, c.Nodes[y].Port
		}
		acct := "Wallet 3/stale"
		for _, nd := range c.Nodes {
			_ = nd.guard("prepare", func() error {
				_, err := nd.Recv.Prepare(nd.PeerCtx(liar.Name), roundTrip(&pb.PrepareRequest{Account: acct, Passphrase: []byte("pass"), Threshold: uint32(th), Participants: eps}, &pb.PrepareRequest{}))
				return err
			})
		}
		err := co.execute(victim, liar.Name, acct)
		rc.Logf("participant list with id %d at the address of id %d: execute at %s -> %v", c.Nodes[x].ID, c.Nodes[y].ID, victim.Name, err)
		rc.Stats.Inc("misdirected_participant_lists", 1)
		rc.Stats.Seen("cases", fmt.Sprintf("misdirected/n%d/t%d/%d>%d", n, th, x, y))
		c.CheckShareOwnership(0)
		for _, nd := range c.Nodes {
			_ = co.abort(nd, liar.Name, acct)
		}
		if len(rc.Viol) > 0 {
			return
		}
	}
	out := c.spawnGenerate(c.Nodes[ch.Pick(n, 0)], "client1", "Wallet 3/own", uint32(th), uint32(n))
	if o := s.Run(); o != "done" || !out.Done {
		rc.Truncated = o == "truncated"
		return
	}
	if out.State != pb.ResponseState_SUCCEEDED {
		rc.Stats.Inc("ownership_generation_failed", 1)
		return
	}
	rc.Stats.Inc("ownership_generations", 1)
	rc.Stats.Seen("cases", fmt.Sprintf("ownership/n%d/t%d/%d", n, th, ids[0]%5))
	c.CheckShareOwnership(s.Step)
	rc.Sample = map[string]any{"ownership_run": true, "n": n, "t": th, "ids": fmt.Sprint(ids)}
}

func init() {
	propRunners["C16"] = func(t *testing.T, rc *RunCtx) {
		if rc.Param("mode", "") == "tls" {
			runPeerEdge(t, rc)
			return
		}
		if rc.Param("mode", "") == "tlsconc" {
			runPeerEdgeConc(t, rc)
			return
		}
		if rc.Param("mode", "") == "realnet" {
			runRealNet(t, rc, "C16")
			return
		}
		runDKGCallers(t, rc)
	}
}
