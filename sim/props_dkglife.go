package sim

import (
	"context"
	"fmt"
	"testing"
	"time"

	"github.com/herumi/bls-eth-go-binary/bls"
	distributed "github.com/wealdtech/go-eth2-wallet-distributed"
)

// lifeRef is the reference lifecycle of one (instance, account) pair, maintained from observed facts.
type lifeRef struct {
	active  bool
	started time.Time
	parts   []*Node
	// has[id]: this instance certainly holds participant id's contribution (it accepted id's request, or an
	// execute of its own that exchanged with id returned success).  maybe[id]: an exchange with id was answered
	// during an execute that then failed, so whether the answer was kept is not observable.
	has   map[uint64]bool
	maybe map[uint64]bool
}

// runDKGLifecycleConcurrent sends 2-4 lifecycle messages for one account to one instance at the same time
// (after a complete prepare/execute round, so that a commit can succeed) and requires the outcomes to be
// explainable by processing them one at a time in some order compatible with their real-time order.
func runDKGLifecycleConcurrent(t *testing.T, rc *RunCtx) {
	ch := rc.Ch
	s := NewSched(rc, SchedCfg{StayBias: []float64{0, 0.5}[ch.Pick(2, 0)], MaxSteps: 20000})
	defer s.Close()
	c := NewCluster(t, rc, s, ClusterCfg{IDs: []uint64{1, 2, 3}})
	defer c.Close()
	co := &coordinator{c: c}
	nodes := c.Nodes
	coord := nodes[0].Name
	acct := "Wallet 3/life-x"
	const th = 2
	executed := ch.Pick(4, 0) > 0
	for _, n := range nodes {
		if err := co.prepare(n, coord, acct, th, nodes); err != nil {
			rc.Violate("HARNESS", "setup-failed", err.Error(), 0)
			return
		}
	}
	if executed {
		for _, n := range nodes {
			if err := co.execute(n, coord, acct); err != nil {
				rc.Violate("HARNESS", "setup-failed", err.Error(), 0)
				return
			}
		}
	}
	target := nodes[ch.Pick(3, 0)]
	k := 2 + ch.Pick(3, 0)
	kinds := make([]string, k)
	oks := make([]bool, k)
	tasks := make([]*Task, k)
	for i := range kinds {
		kinds[i] = []string{"commit", "abort", "prepare", "commit", "abort"}[ch.Pick(5, 0)]
		i := i
		tasks[i] = s.Spawn(kinds[i], target.Inst, func(_ *Task) {
			var err error
			switch kinds[i] {
			case "commit":
				_, err = co.commit(target, coord, acct)
			case "abort":
				err = co.abort(target, coord, acct)
			case "prepare":
				err = co.prepare(target, coord, acct, th, nodes)
			}
			oks[i] = err == nil
		})
	}
	if o := s.Run(); o != "done" {
		rc.Truncated = o == "truncated"
		return
	}
	if p := c.anyPanic(); p != "" {
		rc.Violate("C17", "panic", p, s.Step)
		return
	}
	// Reference: active flag; commit needs every participant's contribution (true iff the round was executed).
	type st struct{ active, complete bool }
	apply := func(x st, kind string) (st, bool) {
		switch kind {
		case "prepare": // a new session holds nobody's contribution yet
			if x.active {
				return x, false
			}
			return st{true, false}, true
		case "abort":
			if !x.active {
				return x, false
			}
			return st{false, false}, true
		default: // commit
			if !x.active || !x.complete {
				return x, false
			}
			return st{false, false}, true
		}
	}
	idx := make([]int, k)
	for i := range idx {
		idx[i] = i
	}
	explained := false
	var permute func(n int)
	permute = func(n int) {
		if explained {
			return
		}
		if n == k {
			// respect real-time order
			pos := make([]int, k)
			for p, i := range idx {
				pos[i] = p
			}
			for a := 0; a < k; a++ {
				for b := 0; b < k; b++ {
					if tasks[a].ReturnStep < tasks[b].InvokeStep && pos[a] > pos[b] {
						return
					}
				}
			}
			x := st{true, executed}
			for _, i := range idx {
				y, ok := apply(x, kinds[i])
				if kinds[i] == "commit" && ok && !oks[i] {
					continue // a commit may fail although it could have succeeded (not promised); nothing changes
				}
				if ok != oks[i] {
					return
				}
				x = y
			}
			explained = true
			return
		}
		for i := n; i < k; i++ {
			idx[n], idx[i] = idx[i], idx[n]
			permute(n + 1)
			idx[n], idx[i] = idx[i], idx[n]
		}
	}
	permute(0)
	desc := ""
	for i := range kinds {
		desc += fmt.Sprintf("%s[%d,%d]=%v ", kinds[i], tasks[i].InvokeStep, tasks[i].ReturnStep, oks[i])
	}
	rc.Logf("concurrent lifecycle on %s (executed=%v): %s", target.Name, executed, desc)
	rc.Stats.Inc("life_concurrent_histories", 1)
	rc.Stats.Seen("cases", "conc/"+desc)
	if !explained {
		rc.Violate("C17", "concurrent-messages-not-serializable", fmt.Sprintf("messages for one account sent to %s at the same time (round executed=%v) ended as %s- no one-at-a-time order of them gives these outcomes", target.Name, executed, desc), s.Step)
	}
	rc.Sample = map[string]any{"concurrent_lifecycle": desc, "executed": executed}
}

// runDKGLifecycle is the body of C17.
func runDKGLifecycle(t *testing.T, rc *RunCtx) {
	bls.SetRandFunc(newSeedReader(rc.Seed))
	defer bls.SetRandFunc(nil)
	ch := rc.Ch
	if ch.Pick(4, 0) == 3 {
		runDKGLifecycleConcurrent(t, rc)
		return
	}
	timeouts := []time.Duration{time.Millisecond, time.Second, 70 * time.Second, 10 * time.Minute}
	timeout := timeouts[ch.Pick(len(timeouts), 0)]
	s := NewSched(rc, SchedCfg{MaxSteps: 20000})
	defer s.Close()
	c := NewCluster(t, rc, s, ClusterCfg{IDs: []uint64{1, 2, 3}, Timeout: timeout})
	defer c.Close()
	co := &coordinator{c: c}
	nodes := c.Nodes
	// A quarter of the runs generate into a wallet that was created (as an operator would, with the wallet tool) after the
	// instances started: it is in every instance's store and in no instance's start-up cache.
	wn := "Wallet 3"
	if ch.Pick(4, 0) == 3 {
		wn = "Late"
		for _, n := range nodes {
			if _, err := distributed.CreateWallet(context.Background(), wn, n.Pop.Store, n.Pop.Encryptor); err != nil {
				t.Fatalf("late wallet on %s: %v", n.Name, err)
			}
		}
		rc.Stats.Inc("life_runs_in_a_wallet_created_after_start", 1)
	}
	// (the second name differs from the first by the case of one letter: another account, another lifecycle)
	accts := []string{wn + "/life-a", wn + "/life-A", wn + "/life-c"}[:1+ch.Pick(3, 0)]
	// A sixth of the runs range over many names (9-24): however many generations were opened and left behind, each
	// name has a lifecycle of its own.
	many := ch.Pick(6, 0) == 5
	if many {
		accts = nil
		for i, k := 0, 9+ch.Pick(16, 0); i < k; i++ {
			accts = append(accts, fmt.Sprintf("%s/life-%02d", wn, i))
		}
		rc.Stats.Inc("life_runs_over_many_names", 1)
	}
	const th = 2
	ref := map[string]*lifeRef{}
	get := func(n *Node, a string) *lifeRef {
		k := n.Name + "|" + a
		if ref[k] == nil {
			ref[k] = &lifeRef{has: map[uint64]bool{}, maybe: map[uint64]bool{}}
		}
		return ref[k]
	}
	// expire applies the passage of time to the reference: strictly more than the timeout = gone;
	// exactly the timeout is left undecided (the property does not say which side it falls on).
	alive := func(r *lifeRef) (isAlive, decided bool) {
		if !r.active {
			return false, true
		}
		age := time.Since(r.started)
		if age > timeout {
			return false, true
		}
		if age == timeout {
			return true, false
		}
		return true, true
	}
	seenExchanges := 0
	absorb := func(executeOK bool) {
		// Fold contribution exchanges the transport completed since the last event into the reference.
		c.Net.mu.Lock()
		cs := c.Net.Contributions[seenExchanges:]
		seenExchanges = len(c.Net.Contributions)
		c.Net.mu.Unlock()
		for _, x := range cs {
			if !x.Reply {
				continue // a reply recorded = the request was accepted and answered
			}
			// x.From = responder (accepted and stored the requester's contribution), x.To = requester.
			get(c.NodeByID(x.From), x.Account).has[x.To] = true
			if executeOK {
				get(c.NodeByID(x.To), x.Account).has[x.From] = true
			} else {
				get(c.NodeByID(x.To), x.Account).maybe[x.From] = true
			}
		}
	}
	allContributed := func(n *Node, r *lifeRef) bool {
		for _, p := range r.parts {
			if p != n && !r.has[p.ID] {
				return false
			}
		}
		return true
	}
	someMissing := func(n *Node, r *lifeRef) bool {
		for _, p := range r.parts {
			if p != n && !r.has[p.ID] && !r.maybe[p.ID] {
				return true
			}
		}
		return false
	}
	nEvents := 8 + ch.Pick(24, 0)
	// A fifth of the runs start with a scripted prefix: a complete generation of the first name, then a second
	// complete round for the same name up to (and including) a commit that has everything it needs except that
	// the account already exists.  The random events that follow meet the state this leaves behind.
	type forced struct{ node, kind, acct int }
	var script []forced
	if many {
		// Scripted prefix: generations for the first m names are opened on one instance (or on all) and left behind;
		// half of the time the clock then moves past the timeout.
		m := 1 + ch.Pick(len(accts), 0)
		everywhere := ch.Pick(2, 0) == 1
		at := ch.Pick(len(nodes), 0)
		for i := 0; i < m; i++ {
			if everywhere {
				for k := range nodes {
					script = append(script, forced{k, 0, i})
				}
			} else {
				script = append(script, forced{at, 0, i})
			}
		}
		if ch.Pick(2, 0) == 1 {
			script = append(script, forced{at, 100, 0})
		}
		nEvents += len(script)
		rc.Stats.Inc("life_generations_left_behind", int64(m))
	} else if ch.Pick(5, 0) == 4 {
		for round := 0; round < 2; round++ {
			for i := range nodes {
				script = append(script, forced{i, 0, 0})
			}
			for i := range nodes {
				script = append(script, forced{i, 3, 0})
			}
			if round == 0 {
				for i := range nodes {
					script = append(script, forced{i, 5, 0})
				}
			} else {
				script = append(script, forced{ch.Pick(len(nodes), 0), 5, 0})
			}
		}
		nEvents += len(script)
		rc.Stats.Inc("life_scripted_second_generation", 1)
	}
	var desc []string
	simTime := time.Duration(0)
	coord := nodes[0].Name
	for ev := 0; ev < nEvents && len(rc.Viol) == 0; ev++ {
		n := nodes[ch.Pick(len(nodes), 0)]
		a := accts[ch.Pick(len(accts), 0)]
		kind := ch.Pick(12, 0)
		scripted := ev < len(script)
		if scripted {
			n, a, kind = nodes[script[ev].node], accts[script[ev].acct], script[ev].kind
		}
		r := get(n, a)
		// Bias towards the legitimate order so that deep states are reached.
		if kind >= 9 && !scripted {
			switch {
			case !r.active:
				kind = 0
			case !allContributed(n, r):
				kind = 3
			default:
				kind = 5
			}
		}
		isAlive, decided := alive(r)
		bad := func(key, f string, x ...any) {
			rc.Violate("C17", key, fmt.Sprintf("event %d on %s for %s: ", ev, n.Name, a)+fmt.Sprintf(f, x...)+fmt.Sprintf(" [history: %v]", desc), ev)
		}
		switch {
		case kind <= 2: // prepare
			parts := nodes
			if !scripted && ch.Pick(4, 0) == 3 {
				parts = nodes[:2]
				if n == nodes[2] {
					parts = nodes[1:]
				}
			}
			err := co.prepare(n, coord, a, th, parts)
			desc = append(desc, fmt.Sprintf("prepare(%s,%s)=%v", n.Name, a[9:], err == nil))
			if decided {
				if isAlive && err == nil {
					bad("prepare-accepted-while-active", "prepare was accepted although a generation for that name is active")
				}
				if !isAlive && err != nil {
					bad("prepare-refused-while-idle", "prepare was refused although no generation for that name is active (%v)", err)
				}
			}
			if err == nil {
				*r = lifeRef{active: true, started: time.Now(), parts: parts, has: map[uint64]bool{}, maybe: map[uint64]bool{}}
				rc.Stats.Inc("life_prepare_ok", 1)
			}
		case kind <= 4: // execute
			err := co.execute(n, coord, a)
			absorb(err == nil)
			desc = append(desc, fmt.Sprintf("execute(%s,%s)=%v", n.Name, a[9:], err == nil))
			if decided && !isAlive && err == nil {
				bad("execute-without-session", "execute was accepted although no generation is active")
			}
			if decided && !isAlive {
				r.active = false
			}
			if err == nil {
				rc.Stats.Inc("life_execute_ok", 1)
			}
		case kind <= 6: // commit
			_, err := co.commit(n, coord, a)
			desc = append(desc, fmt.Sprintf("commit(%s,%s)=%v", n.Name, a[9:], err == nil))
			if decided {
				switch {
				case !isAlive && err == nil:
					bad("commit-without-session", "commit was accepted although no generation is active")
				case isAlive && err == nil && someMissing(n, r):
					bad("commit-before-all-contributed", "commit succeeded although a listed participant has not contributed (holds contributions of %v, possibly %v; listed %v)", r.has, r.maybe, names(r.parts))
				case isAlive && err != nil && allContributed(n, r) && n.storedAccount(a) == nil:
					// The property is one-directional (commit succeeds ONLY once everybody has contributed); a
					// refusal of a complete generation is counted, not reported.
					rc.Stats.Inc("life_commit_refused_although_complete", 1)
				}
			}
			if err == nil {
				r.active = false
				rc.Stats.Inc("life_commit_ok", 1)
				if n.storedAccount(a) == nil {
					bad("commit-without-account", "commit reported success but the account is not in the wallet store")
				}
			} else if decided && !isAlive {
				r.active = false
			}
		case kind == 7: // abort
			err := co.abort(n, coord, a)
			desc = append(desc, fmt.Sprintf("abort(%s,%s)=%v", n.Name, a[9:], err == nil))
			if decided && !isAlive && err == nil {
				bad("abort-without-session", "abort was accepted although no generation is active")
			}
			if decided && isAlive && err != nil {
				bad("abort-refused-while-active", "abort was refused although a generation is active (%v)", err)
			}
			if err == nil || (decided && !isAlive) {
				r.active = false
				rc.Stats.Inc("life_abort", 1)
			}
		default: // clock advance: short, exactly to the boundary of some session, just past it, far
			var d time.Duration
			far := 3
			if !(scripted && kind == 100) {
				far = ch.Pick(4, 0)
			}
			switch far {
			case 0:
				d = timeout / 3
			case 1, 2:
				// Land exactly on / 1ns short of / 1ns past the expiry of this session.
				if r.active {
					left := timeout - time.Since(r.started)
					d = left + time.Duration(ch.Pick(3, 0)-1)
				} else {
					d = timeout / 2
				}
			default:
				d = timeout + time.Duration(1+ch.Pick(1000, 0))*time.Millisecond
			}
			if d > 0 {
				time.Sleep(d)
				simTime += d
			}
			desc = append(desc, fmt.Sprintf("advance(%v)", d))
			rc.Stats.Inc("life_clock_advances", 1)
		}
		if p := c.anyPanic(); p != "" {
			rc.Violate("C17", "panic", p, ev)
		}
	}
	rc.Stats.Inc("sim_time_ms", int64(simTime/time.Millisecond))
	rc.Stats.Seen("cases", hexShort(h32(desc)))
	if len(desc) > 30 {
		desc = append(desc[:30], "...")
	}
	rc.Sample = map[string]any{"timeout": timeout.String(), "accounts": len(accts), "events": desc}
}

func init() {
	propRunners["C17"] = func(t *testing.T, rc *RunCtx) {
		if rc.Param("mode", "") == "free" {
			runLifeFree(t, rc)
			return
		}
		if rc.Param("mode", "") == "daemon" {
			runDaemonLifecycle(t, rc)
			return
		}
		runDKGLifecycle(t, rc)
	}
}

func names(ns []*Node) []string {
	out := make([]string, len(ns))
	for i, n := range ns {
		out[i] = fmt.Sprintf("%s(id %d)", n.Name, n.ID)
	}
	return out
}
