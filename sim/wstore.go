package sim

import (
	"github.com/google/uuid"
	e2wtypes "github.com/wealdtech/go-eth2-wallet-types/v2"
)

// KWStore is the yield kind of the wallet store: the key-generation commit reads a wallet's account index,
// writes the new account and rewrites the index; those are I/O operations of the instance, and another
// request may run between them.
const KWStore = "wstore"

// yieldStore wraps an instance's wallet store (as handed to the process service) with a yield point in front
// of the operations a commit performs.  In direct mode it is a pass-through.
type yieldStore struct {
	inner e2wtypes.Store
	s     *Sched
	inst  func() *Instance
}

func (y *yieldStore) yield(op string) error {
	if y.s == nil {
		return nil
	}
	var inst *Instance
	if y.inst != nil {
		inst = y.inst()
	}
	return y.s.Yield(KWStore, op, "", nil, inst, nil).Err
}

func (y *yieldStore) Name() string { return y.inner.Name() }
func (y *yieldStore) StoreWallet(walletID uuid.UUID, walletName string, data []byte) error {
	return y.inner.StoreWallet(walletID, walletName, data)
}
func (y *yieldStore) RetrieveWallets() <-chan []byte { return y.inner.RetrieveWallets() }
func (y *yieldStore) RetrieveWallet(walletName string) ([]byte, error) {
	if err := y.yield("retrieve-wallet"); err != nil {
		return nil, err
	}
	return y.inner.RetrieveWallet(walletName)
}
func (y *yieldStore) RetrieveWalletByID(walletID uuid.UUID) ([]byte, error) {
	return y.inner.RetrieveWalletByID(walletID)
}
func (y *yieldStore) StoreAccount(walletID uuid.UUID, accountID uuid.UUID, data []byte) error {
	if err := y.yield("store-account"); err != nil {
		return err
	}
	return y.inner.StoreAccount(walletID, accountID, data)
}
func (y *yieldStore) RetrieveAccounts(walletID uuid.UUID) <-chan []byte {
	return y.inner.RetrieveAccounts(walletID)
}
func (y *yieldStore) RetrieveAccount(walletID uuid.UUID, accountID uuid.UUID) ([]byte, error) {
	return y.inner.RetrieveAccount(walletID, accountID)
}
func (y *yieldStore) StoreAccountsIndex(walletID uuid.UUID, data []byte) error {
	if err := y.yield("store-index"); err != nil {
		return err
	}
	return y.inner.StoreAccountsIndex(walletID, data)
}
func (y *yieldStore) RetrieveAccountsIndex(walletID uuid.UUID) ([]byte, error) {
	if err := y.yield("retrieve-index"); err != nil {
		return nil, err
	}
	return y.inner.RetrieveAccountsIndex(walletID)
}
