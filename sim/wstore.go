package sim

import (
	"context"
	"sync"

	"github.com/google/uuid"
	e2wtypes "github.com/wealdtech/go-eth2-wallet-types/v2"
)

// KWStore is the yield kind of the wallet store: the key-generation commit reads a wallet's account index,
// writes the new account and rewrites the index; those are I/O operations of the instance, and another
// request may run between them.
const KWStore = "wstore"

// yieldStore wraps an instance's wallet store (as handed to the process service) with a yield point in front
// of the operations a commit performs.  In direct mode it is a pass-through.
type yieldStore struct {
	inner e2wtypes.Store
	s     *Sched
	inst  func() *Instance
	// hook, if it returns a function, is told about every operation before it is carried out (a runner uses it to
	// let a client go away at exactly that instant).
	hook func() func(op string)
}

func (y *yieldStore) yield(op string) error {
	if y.hook != nil {
		if h := y.hook(); h != nil {
			h(op)
		}
	}
	if y.s == nil {
		return nil
	}
	var inst *Instance
	if y.inst != nil {
		inst = y.inst()
	}
	return y.s.Yield(KWStore, op, "", nil, inst, nil).Err
}

func (y *yieldStore) Name() string { return y.inner.Name() }
func (y *yieldStore) StoreWallet(walletID uuid.UUID, walletName string, data []byte) error {
	return y.inner.StoreWallet(walletID, walletName, data)
}
func (y *yieldStore) RetrieveWallets() <-chan []byte { return y.inner.RetrieveWallets() }
func (y *yieldStore) RetrieveWallet(walletName string) ([]byte, error) {
	if err := y.yield("retrieve-wallet"); err != nil {
		return nil, err
	}
	return y.inner.RetrieveWallet(walletName)
}
func (y *yieldStore) RetrieveWalletByID(walletID uuid.UUID) ([]byte, error) {
	return y.inner.RetrieveWalletByID(walletID)
}
func (y *yieldStore) StoreAccount(walletID uuid.UUID, accountID uuid.UUID, data []byte) error {
	if err := y.yield("store-account"); err != nil {
		return err
	}
	return y.inner.StoreAccount(walletID, accountID, data)
}
func (y *yieldStore) RetrieveAccounts(walletID uuid.UUID) <-chan []byte {
	return y.inner.RetrieveAccounts(walletID)
}
func (y *yieldStore) RetrieveAccount(walletID uuid.UUID, accountID uuid.UUID) ([]byte, error) {
	return y.inner.RetrieveAccount(walletID, accountID)
}
func (y *yieldStore) StoreAccountsIndex(walletID uuid.UUID, data []byte) error {
	if err := y.yield("store-index"); err != nil {
		return err
	}
	return y.inner.StoreAccountsIndex(walletID, data)
}
func (y *yieldStore) RetrieveAccountsIndex(walletID uuid.UUID) ([]byte, error) {
	if err := y.yield("retrieve-index"); err != nil {
		return nil, err
	}
	return y.inner.RetrieveAccountsIndex(walletID)
}

// lockedStore makes the in-memory scratch store (a test store that keeps plain Go maps and is not safe for
// concurrent use, unlike the filesystem store of a deployment) safe under the free-running layers: every
// operation is serialised, and the streaming reads are collected under the lock first.
type lockedStore struct {
	mu    sync.Mutex
	inner e2wtypes.Store
}

func (l *lockedStore) Name() string { return l.inner.Name() }
func (l *lockedStore) StoreWallet(walletID uuid.UUID, walletName string, data []byte) error {
	l.mu.Lock()
	defer l.mu.Unlock()
	return l.inner.StoreWallet(walletID, walletName, data)
}
func drain(ch <-chan []byte) <-chan []byte {
	var all [][]byte
	for b := range ch {
		all = append(all, b)
	}
	out := make(chan []byte, len(all))
	for _, b := range all {
		out <- b
	}
	close(out)
	return out
}
func (l *lockedStore) RetrieveWallets() <-chan []byte {
	l.mu.Lock()
	defer l.mu.Unlock()
	return drain(l.inner.RetrieveWallets())
}
func (l *lockedStore) RetrieveWallet(walletName string) ([]byte, error) {
	l.mu.Lock()
	defer l.mu.Unlock()
	return l.inner.RetrieveWallet(walletName)
}
func (l *lockedStore) RetrieveWalletByID(walletID uuid.UUID) ([]byte, error) {
	l.mu.Lock()
	defer l.mu.Unlock()
	return l.inner.RetrieveWalletByID(walletID)
}
func (l *lockedStore) StoreAccount(walletID uuid.UUID, accountID uuid.UUID, data []byte) error {
	l.mu.Lock()
	defer l.mu.Unlock()
	return l.inner.StoreAccount(walletID, accountID, data)
}
func (l *lockedStore) RetrieveAccounts(walletID uuid.UUID) <-chan []byte {
	l.mu.Lock()
	defer l.mu.Unlock()
	return drain(l.inner.RetrieveAccounts(walletID))
}
func (l *lockedStore) StoreBatch(ctx context.Context, walletID uuid.UUID, walletName string, data []byte) error {
	l.mu.Lock()
	defer l.mu.Unlock()
	return l.inner.(e2wtypes.BatchStorer).StoreBatch(ctx, walletID, walletName, data)
}
func (l *lockedStore) RetrieveBatch(ctx context.Context, walletID uuid.UUID) ([]byte, error) {
	l.mu.Lock()
	defer l.mu.Unlock()
	return l.inner.(e2wtypes.BatchRetriever).RetrieveBatch(ctx, walletID)
}
func (l *lockedStore) RetrieveAccount(walletID uuid.UUID, accountID uuid.UUID) ([]byte, error) {
	l.mu.Lock()
	defer l.mu.Unlock()
	return l.inner.RetrieveAccount(walletID, accountID)
}
func (l *lockedStore) StoreAccountsIndex(walletID uuid.UUID, data []byte) error {
	l.mu.Lock()
	defer l.mu.Unlock()
	return l.inner.StoreAccountsIndex(walletID, data)
}
func (l *lockedStore) RetrieveAccountsIndex(walletID uuid.UUID) ([]byte, error) {
	l.mu.Lock()
	defer l.mu.Unlock()
	return l.inner.RetrieveAccountsIndex(walletID)
}
