//go:build !go1.25

package sim

import "testing"

// The native build (the toolchain the repository itself is built and tested with) has no testing/synctest: it
// hosts only the layers that run real goroutines, real sockets and real processes (TLS edge, wire world,
// free-running layers).  Scheduled layers need the go1.26.8 build.
const haveBubble = false

func bubbleWait() {}

func bubbleTest(t *testing.T, body func(*testing.T)) {
	panic("this build of the simulator has no synctest bubble; scheduled layers need the go1.26.8 build")
}
