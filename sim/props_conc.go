package sim

import (
	"context"
	"fmt"
	"runtime"
	"strings"
	"testing"
	"time"

	"github.com/anishathalye/porcupine"
)

// concWorld is the W1 world used by the concurrency properties (C04, C15) and reused by others.
type concWorld struct {
	rc          *RunCtx
	t           *testing.T
	pop         *Population
	s           *Sched
	inst        *Instance
	ledger      *Ledger
	ops         []*Op
	res         []*OpResult
	tasks       []*Task
	incarnation int
	abandon     bool      // requests get a client context of their own, which the schedule may cancel
	twin        *Instance // a second instance that was let onto the same storage directory while the first one serves
	shared      bool      // two instances have had the storage directory open at once
	pruning     bool      // later incarnations run with periodic pruning switched on
	stuck       bool      // the directory no longer opens after that; the run ends there
}

func newW1(t *testing.T, rc *RunCtx, cfg SchedCfg, plan *FaultPlan) *concWorld {
	return newW1Pop(t, rc, cfg, plan, StdPopulation(t))
}

func newW1Pop(t *testing.T, rc *RunCtx, cfg SchedCfg, plan *FaultPlan, pop *Population) *concWorld {
	s := NewSched(rc, cfg)
	s.KeyName = pop.KeyName
	inst, err := NewInstance(s, "i0", InstCfg{Dir: NewRunDir(t), Pop: pop, Permissions: FullPermissions("client1", "client2"), AdminIPs: []string{"10.0.0.1"}, Plan: plan})
	if err != nil {
		t.Fatalf("instance: %v", err)
	}
	return &concWorld{rc: rc, t: t, pop: pop, s: s, inst: inst, ledger: NewLedger()}
}

// newW1Cfg is newW1Pop with the instance's configuration given (directory, population and, when absent, permissions and
// administrator addresses are filled in).
func newW1Cfg(t *testing.T, rc *RunCtx, cfg SchedCfg, pop *Population, ic InstCfg) *concWorld {
	s := NewSched(rc, cfg)
	s.KeyName = pop.KeyName
	ic.Dir, ic.Pop = NewRunDir(t), pop
	if ic.Permissions == nil {
		ic.Permissions = FullPermissions("client1", "client2")
	}
	if ic.AdminIPs == nil {
		ic.AdminIPs = []string{"10.0.0.1"}
	}
	inst, err := NewInstance(s, "i0", ic)
	if err != nil {
		t.Fatalf("instance: %v", err)
	}
	return &concWorld{rc: rc, t: t, pop: pop, s: s, inst: inst, ledger: NewLedger()}
}

func (w *concWorld) close() {
	w.s.AbortBackground(nil)
	if w.twin != nil {
		w.twin.Close()
	}
	w.inst.Close()
	w.s.Close()
}

// submit spawns one task per operation; each parks at its start point.
func (w *concWorld) submit(ops []*Op) {
	for i, o := range ops {
		o := o
		idx := len(w.ops)
		w.ops = append(w.ops, o)
		w.res = append(w.res, nil)
		inst := w.inst
		t := w.s.Spawn(fmt.Sprintf("op%d:%s", i, o.Kind), inst, func(t *Task) {
			w.res[idx] = o.Exec(inst)
		})
		if w.abandon {
			var cancel context.CancelFunc
			o.base, cancel = context.WithCancel(inst.Ctx)
			t.Cancel = cancel
		}
		w.tasks = append(w.tasks, t)
	}
}

// abandonOne is the scheduler action "a client gives up on a request that is in flight": with a drawn
// probability it cancels the context of one started, unfinished request (decision 0 = nobody gives up).
func (w *concWorld) abandonOne(s *Sched) bool {
	if w == nil || !w.abandon {
		return false
	}
	var live []*Task
	for _, tk := range w.tasks {
		if tk.Started && !tk.Done && !tk.Cancelled && tk.Cancel != nil {
			live = append(live, tk)
		}
	}
	if len(live) == 0 {
		return false
	}
	k := w.rc.Ch.Pick(len(live)+1, 0.8)
	if k == 0 {
		return false
	}
	tk := live[k-1]
	tk.Cancelled = true
	w.rc.Stats.Inc("client_abandons_request_in_flight", 1)
	w.rc.Logf("s%d client abandons %s", s.Step, tk.Name)
	tk.Cancel()
	return true
}

// genConcOps draws a small set of operations over few keys with epochs close together, so that
// the order in which they are processed matters.
func genConcOps(rc *RunCtx, nKeys, nOps int, withOdd bool) []*Op {
	ch := rc.Ch
	uniq := uint64(1)
	mk := func() *Op {
		kind := ch.Pick(10, 0)
		cl := "client1"
		byKey := func() bool { return ch.Pick(3, 0) == 2 }
		pad := func(e *Entry) {
			if e.Acct >= 0 && ch.Pick(8, 0) == 7 {
				e.ByKey, e.KeyPad = false, 1+ch.Pick(2, 0) // public key followed by junk bytes: resolves to the same account
			}
		}
		switch {
		case kind <= 3: // single attestation
			src := uint64(ch.Pick(4, 0))
			tgt := src + uint64(ch.Pick(4, 0))
			e := AttEntry(ch.Pick(nKeys, 0), src, tgt, uniq)
			uniq++
			e.ByKey = byKey()
			pad(&e)
			return &Op{Kind: "att", Client: cl, Entries: []Entry{e}}
		case kind <= 6: // batch attestation over distinct keys in drawn order
			n := 1 + ch.Pick(min(nKeys, 4), 0)
			if n < 2 && nKeys >= 2 {
				n = 2
			}
			perm := make([]int, nKeys)
			for i := range perm {
				perm[i] = i
			}
			for i := nKeys - 1; i > 0; i-- {
				j := ch.Pick(i+1, 0)
				perm[i], perm[j] = perm[j], perm[i]
			}
			o := &Op{Kind: "atts", Client: cl}
			for i := 0; i < n; i++ {
				src := uint64(ch.Pick(4, 0))
				tgt := src + uint64(ch.Pick(4, 0))
				e := AttEntry(perm[i], src, tgt, uniq)
				uniq++
				e.ByKey = byKey()
				pad(&e)
				o.Entries = append(o.Entries, e)
			}
			return o
		case kind <= 8: // proposal, or (a third of the time) a multisign over several keys in drawn order
			if ch.Pick(3, 0) == 2 && nKeys >= 2 {
				n := 2 + ch.Pick(nKeys-1, 0)
				start := ch.Pick(nKeys, 0)
				step := 1 + ch.Pick(2, 0)*(nKeys-2)
				o := &Op{Kind: "multi", Client: cl}
				for i := 0; i < n; i++ {
					k := (start + i*step) % nKeys
					if step != 1 {
						k = (start + nKeys*4 - i) % nKeys // descending order
					}
					e := GenEntry(k, MkDomain([4]byte{7, 0, 0, 0}, uniq), uniq)
					uniq++
					e.ByKey = byKey()
					o.Entries = append(o.Entries, e)
				}
				return o
			}
			e := PropEntry(ch.Pick(nKeys, 0), uint64(ch.Pick(5, 0)), uniq)
			uniq++
			e.ByKey = byKey()
			pad(&e)
			return &Op{Kind: "prop", Client: cl, Entries: []Entry{e}}
		default:
			if !withOdd {
				e := AttEntry(ch.Pick(nKeys, 0), 0, uint64(1+ch.Pick(4, 0)), uniq)
				uniq++
				return &Op{Kind: "att", Client: cl, Entries: []Entry{e}}
			}
			if ch.Pick(2, 0) == 0 { // batch naming one key twice (once by name, once by key)
				k := ch.Pick(nKeys, 0)
				e1 := AttEntry(k, 0, uint64(1+ch.Pick(4, 0)), uniq)
				uniq++
				e2 := AttEntry(k, 0, uint64(1+ch.Pick(4, 0)), uniq)
				uniq++
				e2.ByKey = true
				o := &Op{Kind: "atts", Client: cl, Entries: []Entry{e1, e2}}
				if nKeys > 1 {
					e3 := AttEntry((k+1)%nKeys, 0, uint64(1+ch.Pick(4, 0)), uniq)
					uniq++
					o.Entries = append([]Entry{e3}, o.Entries...)
				}
				return o
			}
			e := AttEntry(-1-ch.Pick(2, 0), 0, 1, uniq)
			uniq++
			return &Op{Kind: "att", Client: cl, Entries: []Entry{e}}
		}
	}
	ops := make([]*Op, nOps)
	for i := range ops {
		ops[i] = mk()
	}
	return ops
}

// --- porcupine model -------------------------------------------------------------------------

type linInput struct {
	op        *Op
	final     bool
	abandoned bool
}

// linModelAbandon is linModel for histories in which clients abandoned requests in flight.
func linModelAbandon(nAccts int) porcupine.Model {
	det := linModel(nAccts)
	nm := porcupine.NondeterministicModel{
		Init: func() []interface{} { return []interface{}{NewModelState(nAccts)} },
		Step: func(state, input, output interface{}) []interface{} {
			in := input.(linInput)
			if !in.abandoned {
				if ok, ns := det.Step(state, input, output); ok {
					return []interface{}{ns}
				}
				return nil
			}
			var out []interface{}
			for _, st := range state.(*ModelState).ApplyAbandoned(in.op, output.(linOutput).ok) {
				out = append(out, st)
			}
			return out
		},
		Equal:             det.Equal,
		DescribeOperation: det.DescribeOperation,
	}
	return nm.ToModel()
}

type linOutput struct {
	ok     []bool
	export map[int]Watermark
}

func linModel(nAccts int) porcupine.Model {
	return porcupine.Model{
		Init: func() interface{} { return NewModelState(nAccts) },
		Step: func(state, input, output interface{}) (bool, interface{}) {
			st := state.(*ModelState)
			in := input.(linInput)
			out := output.(linOutput)
			if in.final {
				for k, w := range out.export {
					if st.W[k] != w {
						return false, st
					}
				}
				for k, w := range st.W {
					if w != NoWatermark {
						if got, present := out.export[k]; !present || got != w {
							return false, st
						}
					}
				}
				return true, st
			}
			ns := st.Clone()
			want := ns.Apply(in.op)
			if len(want) != len(out.ok) {
				return false, st
			}
			for i := range want {
				if want[i] != out.ok[i] {
					return false, st
				}
			}
			return true, ns
		},
		Equal: func(a, b interface{}) bool { return a.(*ModelState).Key() == b.(*ModelState).Key() },
		DescribeOperation: func(input, output interface{}) string {
			in := input.(linInput)
			out := output.(linOutput)
			if in.final {
				return fmt.Sprintf("export -> %v", out.export)
			}
			return fmt.Sprintf("%s -> %v", in.op, out.ok)
		},
	}
}

// exportByAcct converts an export keyed by key name to one keyed by account index, treating
// all-(-1) records as absent... (they are equal to NoWatermark and compared as such).
func exportByAcct(pop *Population, ex map[string]Watermark) map[int]Watermark {
	out := map[int]Watermark{}
	for i, a := range pop.Accts {
		if w, ok := ex[a.KName]; ok {
			out[i] = w
		}
	}
	return out
}

func okVector(r *OpResult, n int) []bool {
	out := make([]bool, n)
	for i := range out {
		out[i] = r.OK(i)
	}
	return out
}

// checkLinearizable runs porcupine over the recorded history; returns "ok", "illegal" or "unknown".
func (w *concWorld) checkLinearizable(finalExport map[string]Watermark) (string, string) {
	var hist []porcupine.Operation
	last := int64(0)
	abandoned := false
	for i, t := range w.tasks {
		if !t.Completed || w.res[i] == nil {
			continue
		}
		call, ret := int64(2*t.InvokeStep), int64(2*t.ReturnStep+1)
		if ret > last {
			last = ret
		}
		if t.Cancelled {
			abandoned = true
		}
		hist = append(hist, porcupine.Operation{ClientId: t.ID, Input: linInput{op: w.ops[i], abandoned: t.Cancelled},
			Call: call, Output: linOutput{ok: okVector(w.res[i], len(w.ops[i].Entries))}, Return: ret})
	}
	if finalExport != nil {
		hist = append(hist, porcupine.Operation{ClientId: len(w.tasks) + 1, Input: linInput{final: true}, Call: last + 1,
			Output: linOutput{export: exportByAcct(w.pop, finalExport)}, Return: last + 2})
	}
	model := linModel(len(w.pop.Accts))
	if abandoned {
		model = linModelAbandon(len(w.pop.Accts))
	}
	res, _ := porcupine.CheckOperationsVerbose(model, hist, 10*time.Second)
	var sb strings.Builder
	for _, h := range hist {
		in := h.Input.(linInput)
		out := h.Output.(linOutput)
		if in.final {
			fmt.Fprintf(&sb, "[%d,%d] export=%v; ", h.Call, h.Return, out.export)
		} else {
			fmt.Fprintf(&sb, "[%d,%d] %s->%v; ", h.Call, h.Return, in.op, out.ok)
		}
	}
	switch res {
	case porcupine.Ok:
		return "ok", sb.String()
	case porcupine.Illegal:
		return "illegal", sb.String()
	default:
		return "unknown", sb.String()
	}
}

// sequentialAgrees replays the operations one at a time on a fresh instance and compares the
// implementation's verdicts with the model's.  It guards C04 against an over-strict model.
func (w *concWorld) sequentialAgrees() bool {
	agree := true
	w.s.Direct(func() {
		inst, err := NewInstance(w.s, "seq", InstCfg{Dir: NewRunDir(w.t), Pop: w.pop, Permissions: w.inst.Cfg.Permissions, AdminIPs: w.inst.Cfg.AdminIPs})
		if err != nil {
			w.t.Fatalf("instance: %v", err)
		}
		defer inst.Close()
		m := NewModelState(len(w.pop.Accts))
		for _, o := range w.ops {
			o := &Op{Kind: o.Kind, Client: o.Client, IP: o.IP, Entries: o.Entries}
			r := o.Exec(inst)
			want := m.Apply(o)
			got := okVector(r, len(o.Entries))
			for i := range want {
				if want[i] != got[i] {
					agree = false
				}
			}
		}
	})
	return agree
}

// runConc is the body of C04 and C15 (they share workload and schedule space and differ in oracle).
func runConc(t *testing.T, rc *RunCtx, prop string) {
	if prop == "C15" && rc.Param("mode", "") == "free" {
		runFreeConc(t, rc)
		return
	}
	ch := rc.Ch
	// Swarm configuration.
	nKeys := 1 + ch.Pick(4, 0)
	nOps := 2 + ch.Pick(7, 0)
	stay := []float64{0, 0.3, 0.6, 0.85}[ch.Pick(4, 0)]
	procs := []int{1, 2, 4, 16}[ch.Pick(4, 0)]
	if prop == "C15" && rc.Tier == "thorough" && ch.Pick(8, 0) == 7 {
		nOps = 16 + ch.Pick(49, 0) // sustained load
	}
	prev := runtime.GOMAXPROCS(procs)
	defer runtime.GOMAXPROCS(prev)
	ops := genConcOps(rc, nKeys, nOps, true)
	// One run in twelve is a bulk run: a batch naming 130-260 keys of a large wallet, with one to three single
	// requests for keys inside it that conflict with the batch's entries (same target, other data), all in flight
	// together.  Whatever a ruler does for large requests, a key is still handled by one request at a time.
	bulk := ch.Pick(12, 0) == 11
	pop := StdPopulation(t)
	var drainKeys []int
	if bulk {
		pop = BigPopulation(t)
		size := 130 + ch.Pick(131, 0)
		start := ch.Pick(len(pop.Accts)-size, 0)
		big := &Op{Kind: "atts", Client: "client1"}
		for i := 0; i < size; i++ {
			big.Entries = append(big.Entries, AttEntry(start+i, 1, 2, uint64(1000+i)))
		}
		ops = []*Op{big}
		if ch.Pick(2, 0) == 1 {
			// a second large batch over the same keys in the opposite order, voting differently for the same target:
			// as a whole, one of the two comes first
			rev := &Op{Kind: "atts", Client: "client2"}
			for i := size - 1; i >= 0; i-- {
				rev.Entries = append(rev.Entries, AttEntry(start+i, 1, 2, uint64(3000+i)))
			}
			ops = append(ops, rev)
			rc.Stats.Inc("bulk_runs_with_two_large_batches", 1)
		}
		for i, n := 0, 1+ch.Pick(3, 0); i < n; i++ {
			e := AttEntry(start+ch.Pick(size, 0), uint64(ch.Pick(2, 0)), 2, uint64(5000+i))
			e.ByKey = ch.Pick(2, 0) == 1
			ops = append(ops, &Op{Kind: "att", Client: "client2", Entries: []Entry{e}})
		}
		// the order in which they are submitted is drawn too
		for i := len(ops) - 1; i > 0; i-- {
			j := ch.Pick(i+1, 0)
			ops[i], ops[j] = ops[j], ops[i]
		}
		drainKeys = []int{start, start + size - 1, big.Entries[size/2].Acct}
		rc.Stats.Inc("bulk_runs", 1)
	}
	// One run in eight (not the bulk ones): every key is held twice, by an account of each of two wallets, and half of the
	// entries reach their key through the second wallet.  Slashing protection is per key, whichever account names it.
	dup := !bulk && ch.Pick(8, 0) == 7
	if dup {
		pop = DupPopulation(t)
		for _, o := range ops {
			for i := range o.Entries {
				if o.Entries[i].Acct >= 0 && o.Entries[i].Acct < 4 && ch.Pick(2, 0) == 1 {
					o.Entries[i].Acct += 4
					o.Entries[i].ByKey = false
				}
			}
		}
		rc.Stats.Inc("runs_with_keys_held_by_two_wallets", 1)
	}
	if drainKeys == nil {
		for k := 0; k < nKeys; k++ {
			drainKeys = append(drainKeys, k)
		}
	}
	budget := 0
	for _, o := range ops {
		budget += 14 + 8*len(o.Entries)
	}
	// In a third of the runs clients may abandon requests that are in flight (the request context is
	// cancelled at a point the schedule chooses, independently of which thread runs next).
	abandon := ch.Pick(3, 0) == 2
	if bulk {
		// The model for abandoned requests branches per entry; with hundreds of entries in one request the
		// linearizability check would not stay tractable.  Bulk runs keep their clients.
		abandon = false
	}
	cfg := SchedCfg{StayBias: stay, MaxSteps: 8 * budget, DeadlockProperty: prop}
	// C15 only, a quarter of the runs: storage operations fail at a drawn rate (reads, single and batch writes).
	// Requests must still all return and leave nothing locked; what they answer is C06's business.
	faulty := prop == "C15" && ch.Pick(4, 0) == 3
	if faulty {
		den := []int{3, 6, 12}[ch.Pick(3, 0)]
		cfg.Fault = func(s *Sched, p *Park) Resume {
			if p.Kind == KPoint && ch.Chance(1, den) {
				rc.Stats.Inc("fault_store-"+p.Label, 1)
				return Resume{Err: ErrInjected, Fault: "store-" + p.Label}
			}
			return Resume{}
		}
		rc.Stats.Inc("runs_with_storage_faults", 1)
	}
	var w *concWorld
	if abandon {
		cfg.Action = func(s *Sched, parked []*Park) bool { return w.abandonOne(s) }
	}
	w = newW1Pop(t, rc, cfg, nil, pop)
	defer w.close()
	if !bulk && ch.Pick(2, 0) == 1 {
		// The keys have been used before (one generic signature each, outside the checked history): whatever
		// the locker keeps per key already exists when the concurrent requests arrive.
		w.s.Direct(func() {
			for k := 0; k < nKeys; k++ {
				(&Op{Kind: "gen", Client: "client1", Entries: []Entry{GenEntry(k, MkDomain([4]byte{7, 0, 0, 0}, 3), uint64(800000+k))}}).Exec(w.inst)
			}
		})
		rc.Stats.Inc("runs_with_keys_used_before", 1)
	}
	w.abandon = abandon
	w.submit(ops)
	outcome := w.s.Run()
	w.abandon = false
	rc.Stats.Inc("outcome_"+outcome, 1)
	rc.Stats.Seen("schedules", w.s.ScheduleSignature())
	desc := make([]string, len(ops))
	for i, o := range ops {
		desc[i] = o.String()
	}
	rc.Sample = map[string]any{"keys": nKeys, "gomaxprocs": procs, "stay_bias": stay, "clients_may_abandon": abandon, "ops": desc, "steps": w.s.Step, "outcome": outcome}
	if outcome == "truncated" {
		rc.Stats.Inc("truncated", 1)
		return
	}
	// Monitors on every completed operation, in return order.
	order := make([]int, 0, len(w.tasks))
	for i := range w.tasks {
		order = append(order, i)
	}
	for i := 0; i < len(order); i++ {
		for j := i + 1; j < len(order); j++ {
			if w.tasks[order[j]].ReturnStep < w.tasks[order[i]].ReturnStep {
				order[i], order[j] = order[j], order[i]
			}
		}
	}
	for _, i := range order {
		tk := w.tasks[i]
		if tk.Panic != nil {
			rc.Violate("C20", "panic-in-request", fmt.Sprintf("%s: %v", w.ops[i], tk.Panic), tk.ReturnStep)
			continue
		}
		if !tk.Completed {
			if outcome == "done" {
				rc.Violate("C15", "request-never-completed", fmt.Sprintf("%s did not run to completion", w.ops[i]), w.s.Step)
			}
			continue
		}
		Monitor(rc, w.ledger, w.pop, w.ops[i], w.res[i], tk.ReturnStep, false)
	}
	if outcome != "done" {
		return
	}
	// Nothing may be left locked: one more request per key, and one naming them all, must still complete.
	// (Behavioural on purpose: how the ruler avoids lock cycles - a locker-wide section, a canonical order - is
	// its own business; an earlier version of this check demanded the PreLock/PostLock discipline and would
	// have raised an alarm on a correct ruler that orders its locks instead.)
	{
		var drain []*Op
		all := &Op{Kind: "multi", Client: "client1"}
		for _, k := range drainKeys {
			drain = append(drain, &Op{Kind: "gen", Client: "client1", Entries: []Entry{GenEntry(k, MkDomain([4]byte{7, 0, 0, 0}, 1), uint64(900000+k))}})
			all.Entries = append(all.Entries, GenEntry(k, MkDomain([4]byte{7, 0, 0, 0}, 2), uint64(910000+k)))
		}
		drain = append(drain, all)
		first := len(w.tasks)
		w.submit(drain)
		if o := w.s.Run(); o == "deadlock" {
			return
		}
		for i := first; i < len(w.tasks); i++ {
			if !w.tasks[i].Completed {
				rc.Violate("C15", "request-never-completed", fmt.Sprintf("after all requests had returned, %s could not complete: something was left locked", w.ops[i]), w.s.Step)
			}
		}
		// The drain requests are not part of the checked history.
		w.tasks, w.ops, w.res = w.tasks[:first], w.ops[:first], w.res[:first]
		rc.Stats.Inc("drain_phases", 1)
	}
	for _, v := range rc.Viol {
		if v.Property == "C01" || v.Property == "C02" {
			rc.Violate("C04", "conflicting-requests-both-signed", "under a concurrent schedule: "+v.Detail, v.Step)
			break
		}
	}
	overlap := false
	for i, a := range w.tasks {
		for j, b := range w.tasks {
			if i != j && a.InvokeStep < b.InvokeStep && b.InvokeStep < a.ReturnStep {
				overlap = true
			}
		}
	}
	if overlap {
		rc.Stats.Seen("cases", w.s.ScheduleSignature()+hexShort(h32(desc)))
		rc.Stats.Inc("probe_overlapping_requests", 1)
	}
	if faulty {
		// Verdicts under injected storage errors follow no sequential model; completion has been checked.
		return
	}
	var export map[string]Watermark
	var err error
	w.s.Direct(func() { export, err = w.inst.Export() })
	if err != nil {
		rc.Violate(prop, "export-failed", err.Error(), w.s.Step)
		return
	}
	if dup {
		// The sequential model is per account; here two accounts share a record.  These runs are judged by the ledger of
		// released signatures (above) alone.
		return
	}
	if len(ops) > 12 {
		// Histories fed to the linearizability checker stay short (the problem is NP-hard, and inside a
		// bubble the checker's own timeout runs on the fake clock); long sustained-load runs are checked for
		// completion, lock discipline and the pairwise ledger only.
		rc.Stats.Inc("porcupine_skipped_long_history", 1)
		return
	}
	verdict, hist := w.checkLinearizable(export)
	rc.Stats.Inc("porcupine_"+verdict, 1)
	if verdict == "illegal" {
		if w.sequentialAgrees() {
			rc.Violate("C04", "not-linearizable", "history has no sequential explanation: "+hist, w.s.Step)
		} else {
			rc.Stats.Inc("seq_model_mismatch", 1)
		}
	}
	// Reach probes.
	multi := 0
	for _, o := range ops {
		if len(o.Entries) > 1 {
			multi++
		}
	}
	if multi >= 2 {
		rc.Stats.Inc("probe_two_or_more_batches", 1)
	}
}
