package sim

import (
	"fmt"
	"runtime"
	"testing"

	"github.com/herumi/bls-eth-go-binary/bls"
	pb "github.com/wealdtech/eth2-signer-api/pb/v1"
)

// runThreshold is the body of C14: two conflicting duties routed adversarially over the instances
// that hold the shares of one distributed account; at most one may collect t valid partial signatures.
func runThreshold(t *testing.T, rc *RunCtx) {
	bls.SetRandFunc(newSeedReader(rc.Seed))
	defer bls.SetRandFunc(nil)
	ch := rc.Ch
	maxN := 5
	if rc.Tier == "thorough" {
		maxN = 7
	}
	n := 2 + ch.Pick(maxN-1, 0)
	th := n/2 + 1 + ch.Pick(n-n/2, 0)
	ids := idSet(rc, ch.Pick(4, 0), n)
	cfg := SchedCfg{StayBias: []float64{0, 0.4, 0.8}[ch.Pick(3, 0)], MaxSteps: 50000}
	// A quarter of the runs: once the key exists, storage reads and writes of the instances fail now and then.
	faultsOn := false
	if ch.Pick(4, 0) == 3 {
		den := []int{4, 8, 16}[ch.Pick(3, 0)]
		cfg.Fault = func(s *Sched, p *Park) Resume {
			if faultsOn && p.Kind == KPoint && ch.Chance(1, den) {
				rc.Stats.Inc("fault_store-"+p.Label, 1)
				return Resume{Err: ErrInjected, Fault: "store-" + p.Label}
			}
			return Resume{}
		}
		rc.Stats.Inc("runs_with_transient_storage_errors", 1)
	}
	s := NewSched(rc, cfg)
	defer s.Close()
	c := NewCluster(t, rc, s, ClusterCfg{IDs: ids, Order: ids})
	defer c.Close()
	path := "Wallet 3/validator"
	gen := c.spawnGenerate(c.Nodes[ch.Pick(n, 0)], "client1", path, uint32(th), uint32(n))
	if o := s.Run(); o != "done" || !gen.Done {
		rc.Truncated = o == "truncated"
		return
	}
	if gen.State != pb.ResponseState_SUCCEEDED {
		rc.Violate("HARNESS", "setup-generation-failed", gen.Message, s.Step)
		return
	}
	shareKey := map[*Node][]byte{}
	for _, nd := range c.Nodes {
		a := nd.storedAccount(path)
		if a == nil {
			rc.Violate("HARNESS", "setup-account-missing", nd.Name, s.Step)
			return
		}
		shareKey[nd] = a.PublicKey().Marshal()
	}
	// Swarm variant: a second distributed account whose (already signed, hence refused) duty rides in
	// the same batch requests as the conflicting duties.
	decoyPath := ""
	var decoy Entry
	if ch.Pick(2, 0) == 1 {
		decoyPath = "Wallet 3/decoy"
		g2 := c.spawnGenerate(c.Nodes[0], "client1", decoyPath, uint32(th), uint32(n))
		if o := s.Run(); o != "done" || !g2.Done || g2.State != pb.ResponseState_SUCCEEDED {
			rc.Truncated = o == "truncated"
			return
		}
		decoy = AttEntry(0, 1, 2, 777)
		decoy.AddrPath = decoyPath
		// Half of the time the decoy's duty has been signed everywhere already (it is refused in the batches); otherwise
		// the decoy is an account nothing was ever recorded for, and its first duty rides in the batch.
		if ch.Pick(2, 0) == 0 {
			s.Direct(func() {
				for _, nd := range c.Nodes {
					(&Op{Kind: "att", Client: "client1", Entries: []Entry{decoy}}).Exec(nd.Inst)
				}
			})
		} else {
			rc.Stats.Inc("probe_decoy_account_without_history", 1)
		}
		rc.Stats.Inc("probe_decoy_account", 1)
	}
	// Swarm variant: the validator already has history on every instance (an earlier attestation and block,
	// below the conflicting duties): the duties are then not the first thing its shares sign after start-up.
	if ch.Pick(2, 0) == 1 {
		s.Direct(func() {
			for _, nd := range c.Nodes {
				wa, wp := AttEntry(0, 1, 2, 555), PropEntry(0, 1, 556)
				wa.AddrPath, wp.AddrPath = path, path
				ra := (&Op{Kind: "att", Client: "client1", Entries: []Entry{wa}}).Exec(nd.Inst)
				rp := (&Op{Kind: "prop", Client: "client1", Entries: []Entry{wp}}).Exec(nd.Inst)
				if !ra.OK(0) || !rp.OK(0) {
					rc.Violate("HARNESS", "setup-history-refused", fmt.Sprintf("%s: %v %v", nd.Name, ra.States, rp.States), s.Step)
				}
			}
		})
		rc.Stats.Inc("probe_validator_with_earlier_history", 1)
		if len(rc.Viol) > 0 {
			return
		}
	}
	// The two conflicting duties.
	var A, B Entry
	kind := "att"
	conflict := ch.Pick(4, 0)
	base := uint64(3 + ch.Pick(50, 0))
	switch conflict {
	case 0: // same target, different data
		A, B = AttEntry(0, base, base+2, 1), AttEntry(0, base, base+2, 2)
	case 1: // A surrounds B
		A, B = AttEntry(0, base, base+5, 1), AttEntry(0, base+1, base+4, 2)
	case 2: // B surrounds A
		A, B = AttEntry(0, base+1, base+4, 1), AttEntry(0, base, base+5, 2)
	default: // two blocks at one slot
		kind = "prop"
		A, B = PropEntry(0, base, 1), PropEntry(0, base, 2)
	}
	duties := []*Entry{&A, &B}
	type reqRec struct {
		duty  int
		node  *Node
		op    *Op
		res   *OpResult
		phase int
	}
	var reqs []*reqRec
	mkOp := func(nd *Node, duty int) *Op {
		e := *duties[duty]
		switch ch.Pick(6, 0) {
		case 0, 1:
			e.AddrKey = shareKey[nd]
		case 5: // the share key followed by junk bytes (resolves to the same account)
			e.AddrKey = append(append([]byte{}, shareKey[nd]...), make([]byte, 1+ch.Pick(2, 0))...)
		case 2:
			e.AddrKey = gen.PubKey // the validator (composite) key; it does not resolve on the unchanged tree
		default:
			e.AddrPath = path
		}
		o := &Op{Kind: kind, Client: "client1", Entries: []Entry{e}}
		if kind == "att" && ch.Pick(3, 0) == 2 {
			o.Kind = "atts" // through the batch endpoint
		}
		if kind == "att" && decoyPath != "" && ch.Pick(2, 0) == 1 {
			// A batch naming two accounts: the decoy's repeated (refused) duty before or after the real one.
			o.Kind = "atts"
			if ch.Pick(3, 0) > 0 {
				o.Entries = []Entry{decoy, e}
			} else {
				o.Entries = []Entry{e, decoy}
			}
		}
		return o
	}
	// twins: a replacement process that was let onto the storage directory of an instance that is still serving
	// (none on a tree that refuses the second opener).  Requests for that instance then reach either process.
	twins := map[*Node]*Instance{}
	defer func() {
		for _, tw := range twins {
			tw.Close()
		}
	}()
	submit := func(phase int, plan [][2]int) {
		for _, x := range plan {
			nd := c.Nodes[x[0]]
			r := &reqRec{duty: x[1], node: nd, op: mkOp(nd, x[1]), phase: phase}
			reqs = append(reqs, r)
			inst := nd.Inst
			if tw := twins[nd]; tw != nil && ch.Pick(2, 0) == 1 {
				inst = tw
			}
			s.Spawn(fmt.Sprintf("duty%c@%s", 'A'+x[1], nd.Name), inst, func(_ *Task) { r.res = r.op.Exec(inst) })
		}
	}
	// Routing strategy of the adversarial client.
	var plan [][2]int
	strategy := ch.Pick(4, 0)
	switch strategy {
	case 0: // complementary halves
		for i := 0; i < n; i++ {
			plan = append(plan, [2]int{i, i % 2})
		}
	case 1: // t-sized overlapping sets
		for i := 0; i < th; i++ {
			plan = append(plan, [2]int{i, 0})
			plan = append(plan, [2]int{n - 1 - i, 1})
		}
	case 2: // both duties to every instance
		for i := 0; i < n; i++ {
			plan = append(plan, [2]int{i, 0}, [2]int{i, 1})
		}
	default: // drawn subsets with repeats
		k := 2 + ch.Pick(2*n, 0)
		for i := 0; i < k; i++ {
			plan = append(plan, [2]int{ch.Pick(n, 0), ch.Pick(2, 0)})
		}
	}
	crashRestart := func(nd *Node) {
		img := NewRunDir(t)
		if err := CopyDir(nd.Inst.Cfg.Dir, img); err != nil {
			t.Fatalf("copy: %v", err)
		}
		nd.Inst.Dead = true
		nd.Inst.Close()
		c.startNode(nd, img)
		rc.Stats.Inc("crash_restarts", 1)
	}
	// Swarm variant: before the routing proper, one duty reaches some instances in a batch whose second entry
	// has a domain shorter than a domain type, in a slice of exactly that capacity (a caller inside the process;
	// the wire decoder never produces one). Where the request ends in a panic the daemon is dead: it released
	// nothing, and the instance comes back from what is on its disk.
	if kind == "att" && ch.Pick(4, 0) == 3 {
		duty := ch.Pick(2, 0)
		all := ch.Pick(2, 0) == 1
		for _, nd := range c.Nodes {
			if !all && ch.Pick(2, 0) == 0 {
				continue
			}
			e := *duties[duty]
			e.AddrPath = path
			bad := AttEntry(0, base+7, base+8, 99)
			bad.AddrPath = path
			if decoyPath != "" {
				bad.AddrPath = decoyPath
			}
			bad.Domain = make([]byte, 1+ch.Pick(3, 0))
			bad.Domain[0] = byte(ch.Pick(3, 0))
			r := &reqRec{duty: duty, node: nd, op: &Op{Kind: "atts", Client: "client1", Entries: []Entry{e, bad}}, phase: -1}
			inst := nd.Inst
			s.Direct(func() { r.res = r.op.Exec(inst) })
			rc.Stats.Inc("probe_batch_with_short_domain_entry", 1)
			if r.res.Panic != "" {
				rc.Stats.Inc("daemon_died_on_short_domain", 1)
				crashRestart(nd)
				continue
			}
			reqs = append(reqs, r)
		}
	}
	faultsOn = true
	submit(0, plan)
	if o := s.Run(); o != "done" {
		rc.Truncated = o == "truncated"
		return
	}
	// Swarm variant: crash-restart (directory image) or clean-restart some instances, then retry the
	// loser (and the winner) everywhere.
	restarts := 0
	if ch.Pick(2, 0) == 1 {
		for _, nd := range c.Nodes {
			switch ch.Pick(3, 0) {
			case 1:
				dir := nd.Inst.Cfg.Dir
				nd.Inst.Close()
				c.startNode(nd, dir)
				restarts++
				rc.Stats.Inc("clean_restarts", 1)
			case 2:
				crashRestart(nd)
				restarts++
			}
		}
	}
	// Swarm variant: an operator starts the replacement process of an instance on its storage directory while the
	// old process still serves (an overlapping restart, a unit started twice).  Refused or let in, the share's history
	// stays one.
	if ch.Pick(4, 0) == 3 {
		for _, nd := range c.Nodes {
			if ch.Pick(2, 0) == 0 {
				continue
			}
			nd := nd
			s.Direct(func() {
				tw, err := NewInstance(s, nd.Name+"-replacement", InstCfg{Dir: nd.Inst.Cfg.Dir, Pop: nd.Pop, Permissions: c.Perms, AdminIPs: c.AdminIPs})
				if err != nil {
					rc.Stats.Inc("replacement_process_on_same_directory_refused", 1)
					return
				}
				rc.Stats.Inc("replacement_process_on_same_directory_started", 1)
				twins[nd] = tw
			})
		}
	}
	var plan2 [][2]int
	for i := 0; i < n; i++ {
		plan2 = append(plan2, [2]int{i, 1}, [2]int{i, 0})
	}
	submit(1, plan2)
	if o := s.Run(); o != "done" {
		rc.Truncated = o == "truncated"
		return
	}
	if cfg.Fault != nil {
		// A client whose requests failed repeats them, twice more, everywhere.
		for round := 2; round <= 3; round++ {
			submit(round, plan2)
			if o := s.Run(); o != "done" {
				rc.Truncated = o == "truncated"
				return
			}
		}
	}
	// Count valid partial signatures per duty, one per instance.
	signers := [2]map[*Node][]byte{{}, {}}
	// Swarm variant: the adversarial client also tries the generic endpoints.  Each instance gets, per duty, a generic
	// request for the duty's root under its (slashable) domain, and a Multisign whose first entry is that root and domain -
	// addressed to the validator or to the decoy - followed by an entry with a harmless domain for the validator, on more than
	// one worker.  Whatever comes back is tried against both duties under the instance's share key.
	if ch.Pick(3, 0) == 2 {
		prevProcs := runtime.GOMAXPROCS([]int{2, 4, 16}[ch.Pick(3, 0)])
		for _, nd := range c.Nodes {
			for d := 0; d < 2; d++ {
				slash := Entry{Acct: 0, Data: duties[d].ObjectRoot(kind), Domain: duties[d].Domain, AddrPath: path}
				other := slash
				if decoyPath != "" && ch.Pick(2, 0) == 1 {
					other.AddrPath = decoyPath
				}
				harmless := GenEntry(0, MkDomain([4]byte{7, 0, 0, 0}, uint64(d)), uint64(9000+d))
				harmless.AddrPath = path
				ops := []*Op{
					{Kind: "gen", Client: "client1", Entries: []Entry{slash}},
					{Kind: "multi", Client: "client1", Entries: []Entry{other, harmless}},
					{Kind: "multi", Client: "client1", Entries: []Entry{harmless, other, harmless}},
				}
				inst := nd.Inst
				for _, o := range ops {
					var res *OpResult
					s.Direct(func() { res = o.Exec(inst) })
					rc.Stats.Inc("probe_duties_tried_through_generic_endpoints", 1)
					if res == nil {
						continue
					}
					for i := range res.Sigs {
						for dd := 0; dd < 2; dd++ {
							if len(res.Sigs[i]) > 0 && VerifySig(shareKey[nd], res.Sigs[i], duties[dd].ObjectRoot(kind), duties[dd].Domain) {
								rc.Violate("C05", "generic-signature-valid-under-slashable-domain", fmt.Sprintf("%s position %d on %s: a partial signature for duty %c came back from a generic endpoint", o, i, nd.Name, 'A'+dd), s.Step)
								signers[dd][nd] = res.Sigs[i]
							}
						}
					}
				}
			}
		}
		runtime.GOMAXPROCS(prevProcs)
	}
	for _, r := range reqs {
		pos := 0
		if len(r.op.Entries) == 2 && r.op.Entries[0].AddrPath == decoyPath && decoyPath != "" {
			pos = 1
		}
		if r.res == nil || !r.res.OK(pos) {
			continue
		}
		e := &r.op.Entries[pos]
		if !VerifySig(shareKey[r.node], r.res.Sigs[pos], e.ObjectRoot(kind), e.Domain) {
			rc.Violate("C08", "invalid-signature", fmt.Sprintf("partial signature of %s for duty %c does not verify under its share key", r.node.Name, 'A'+r.duty), s.Step)
			continue
		}
		signers[r.duty][r.node] = r.res.Sigs[pos]
	}
	for _, nd := range c.Nodes {
		_, a := signers[0][nd]
		_, b := signers[1][nd]
		if a && b {
			p := "C01"
			if kind == "prop" {
				p = "C02"
			}
			rc.Violate(p, "instance-signed-both-conflicting-duties", fmt.Sprintf("%s signed both duties", nd.Name), s.Step)
			rc.Stats.Inc("probe_instance_signed_both", 1)
		}
	}
	rc.Logf("n=%d t=%d conflict=%d strategy=%d restarts=%d: duty A signed by %d, duty B by %d", n, th, conflict, strategy, restarts, len(signers[0]), len(signers[1]))
	if len(signers[0]) >= th && len(signers[1]) >= th {
		rc.Violate("C14", "both-conflicting-duties-reached-threshold", fmt.Sprintf("n=%d t=%d: duty A collected %d and duty B %d valid partial signatures", n, th, len(signers[0]), len(signers[1])), s.Step)
	}
	for d := 0; d < 2; d++ {
		if len(signers[d]) >= th {
			rc.Stats.Inc("duty_reached_threshold", 1)
			var idsUsed []uint64
			var sigs [][]byte
			for _, nd := range c.Nodes {
				if sg, ok := signers[d][nd]; ok && len(idsUsed) < th {
					idsUsed = append(idsUsed, nd.ID)
					sigs = append(sigs, sg)
				}
			}
			rs, err := recoverSig(idsUsed, sigs)
			e := duties[d]
			if err != nil || !VerifySig(gen.PubKey, rs, e.ObjectRoot(kind), e.Domain) {
				rc.Violate("C14", "threshold-signature-invalid", fmt.Sprintf("duty %c reached the threshold but the recovered signature does not verify under the composite key", 'A'+d), s.Step)
			}
		}
	}
	if len(signers[0])+len(signers[1]) > 0 {
		rc.Stats.Seen("cases", fmt.Sprintf("n%d/t%d/c%d/s%d/r%d/%s", n, th, conflict, strategy, restarts, s.ScheduleSignature()))
	}
	rc.Stats.Seen("nt_pairs", fmt.Sprintf("%d/%d", n, th))
	rc.Sample = map[string]any{"n": n, "t": th, "conflict": []string{"double vote", "A surrounds B", "B surrounds A", "double proposal"}[conflict], "strategy": []string{"complementary halves", "t-sized overlapping sets", "both to every instance", "drawn subsets with repeats"}[strategy],
		"restarts_between_phases": restarts, "signed_A": len(signers[0]), "signed_B": len(signers[1])}
}

func init() {
	propRunners["C14"] = runThreshold
	ownProps["C14"] = map[string]bool{}
}
