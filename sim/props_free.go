package sim

import (
	"fmt"
	"regexp"
	"runtime"
	"strings"
	"sync"
	"sync/atomic"
	"testing"
	"time"

	pb "github.com/wealdtech/eth2-signer-api/pb/v1"
	"google.golang.org/protobuf/proto"
)

// Free-running layers.  The seeded scheduler owns every lock and storage access the unchanged tree has
// (section 3), and runs one thread at a time.  Two things are out of its reach by construction:
//   - a lock the simulator has no hook in front of (a change can add one anywhere): a thread blocked on it is
//     not parked and not quiescent, so the run cannot continue and ends inconclusive (exit 2);
//   - failures that need two threads physically inside the same code at the same instant (an unsynchronised
//     map written under a read lock makes the Go runtime kill the process).
// These layers therefore run the same real stack with real, unscheduled goroutines (hooks in pass-through
// mode) and decide only what cannot be a timing artefact: a process that died, and a set of requests that
// made no progress between two goroutine dumps taken seconds apart while every one of them was blocked
// (not running, not runnable, not sleeping).  They are seeded in their workload, not in their interleaving;
// a finding is reported only if it shows again when the seed is replayed in a fresh process.

var reGoroutineHeader = regexp.MustCompile(`(?m)^goroutine (\d+) \[([^\],]+)`)

// blockedInDirk returns, from a full goroutine dump, the request goroutines (those with Op.Exec on their stack)
// that are blocked on a synchronisation primitive, keyed by goroutine id, with the topmost frame of the code
// under test; busy reports whether any goroutine with a frame of the code under test is running or runnable
// (then nothing can be concluded).
func blockedInDirk(dump string) (blocked map[string]string, busy bool) {
	blocked = map[string]string{}
	for _, g := range strings.Split(dump, "\n\n") {
		m := reGoroutineHeader.FindStringSubmatch(g)
		if m == nil || !strings.Contains(g, "github.com/attestantio/dirk/") {
			continue
		}
		if strings.Contains(g, "verifsim.fullDump") {
			continue // the goroutine taking the dump
		}
		state := m[2]
		isBlocked := strings.HasPrefix(state, "sync.Mutex.Lock") || strings.HasPrefix(state, "sync.RWMutex") || strings.HasPrefix(state, "semacquire") ||
			strings.HasPrefix(state, "sync.Cond.Wait") || strings.HasPrefix(state, "sync.WaitGroup.Wait") || strings.HasPrefix(state, "chan receive") || strings.HasPrefix(state, "chan send") || strings.HasPrefix(state, "select")
		if !isBlocked {
			if state != "IO wait" {
				busy = true
			}
			continue
		}
		if !strings.Contains(g, "verifsim.(*Op).Exec") {
			continue // a background goroutine of the instance
		}
		frame := ""
		for _, line := range strings.Split(g, "\n") {
			if strings.HasPrefix(line, "github.com/attestantio/dirk/") && !strings.Contains(line, "/util/verifhook") {
				frame = line
				break
			}
		}
		if frame != "" {
			blocked[m[1]] = state + " in " + frame
		}
	}
	return blocked, busy
}

func fullDump() string {
	buf := make([]byte, 1<<22)
	return string(buf[:runtime.Stack(buf, true)])
}

// runFreeConc is the free-running layer of C15: 4-10 clients send batches naming overlapping keys in
// crossing orders, as fast as they can, against one real instance.
func runFreeConc(t *testing.T, rc *RunCtx) {
	InitBLS()
	ch := rc.Ch
	prev := runtime.GOMAXPROCS(max(8, runtime.NumCPU()))
	defer runtime.GOMAXPROCS(prev)
	pop := StdPopulation(t)
	s := NewSched(rc, SchedCfg{})
	defer s.Close()
	inst, err := NewInstance(s, "free", InstCfg{Dir: NewRunDir(t), Pop: pop, Permissions: FullPermissions("client1", "client2"), AdminIPs: []string{"10.0.0.1"}})
	if err != nil {
		t.Fatalf("instance: %v", err)
	}
	nKeys := 2 + ch.Pick(4, 0)
	workers := 4 + ch.Pick(7, 0)
	rounds := 20 + ch.Pick(40, 0)
	work := make([][]*Op, workers)
	// A third of the runs: wide batches (9-18 of Wallet 1's accounts each, in drawn orders) - more entries per request
	// than a small machine has processors, several such requests in flight at once.
	wide := ch.Pick(3, 0) == 2
	if wide {
		rc.Stats.Inc("free_running_runs_with_wide_batches", 1)
	}
	sealedRun := ch.Pick(3, 0) == 1
	sealed := pop.ByPath("Wallet 2/Sealed").idx
	if sealedRun {
		rc.Stats.Inc("free_running_runs_naming_an_account_that_cannot_be_unlocked", 1)
	}
	for w := range work {
		work[w] = genConcOps(rc, nKeys, rounds, false)
		if wide {
			uniq := uint64(w+1) * 1_000_000
			for i := range work[w] {
				n := 9 + ch.Pick(10, 0)
				perm := make([]int, 20)
				for k := range perm {
					perm[k] = k
				}
				for k := len(perm) - 1; k > 0; k-- {
					j := ch.Pick(k+1, 0)
					perm[k], perm[j] = perm[j], perm[k]
				}
				o := &Op{Kind: "atts"}
				for k := 0; k < n; k++ {
					uniq++
					o.Entries = append(o.Entries, AttEntry(perm[k], uint64(i), uint64(i+1), uniq))
				}
				work[w][i] = o
			}
		}
		if sealedRun {
			// a third of this run's requests also name (or name only) the account nothing configured opens: the unlocker is
			// at work on one account for several requests at once
			for i, o := range work[w] {
				if ch.Pick(3, 0) != 0 || len(o.Entries) == 0 {
					continue
				}
				var e Entry
				switch o.Kind {
				case "att", "atts":
					e = AttEntry(sealed, uint64(i), uint64(i+1), uint64(w+1)*7_000_000+uint64(i))
				case "gen", "multi":
					e = GenEntry(sealed, MkDomain([4]byte{7, 0, 0, 0}, uint64(i)), uint64(w+1)*7_000_000+uint64(i))
				default:
					continue
				}
				if o.Kind == "atts" || o.Kind == "multi" {
					at := ch.Pick(len(o.Entries)+1, 0)
					o.Entries = append(o.Entries[:at], append([]Entry{e}, o.Entries[at:]...)...)
				} else {
					o.Entries = []Entry{e}
				}
			}
		}
		for _, o := range work[w] {
			// Unique epochs are irrelevant here; what matters is which keys are named in which order.
			o.Client = []string{"client1", "client2"}[w%2]
		}
	}
	var completed atomic.Int64
	var wg sync.WaitGroup
	start := make(chan struct{})
	for w := range work {
		wg.Add(1)
		go func(ops []*Op) {
			defer wg.Done()
			<-start
			for _, o := range ops {
				_ = o.Exec(inst)
				completed.Add(1)
			}
		}(work[w])
	}
	allDone := make(chan struct{})
	go func() { wg.Wait(); close(allDone) }()
	close(start)
	total := int64(workers * rounds)
	rc.Stats.Inc("free_running_requests", total)
	rc.Stats.Seen("cases", fmt.Sprintf("free/%d/%d/%d/%d", nKeys, workers, rounds, rc.Seed))
	rc.Sample = map[string]any{"layer": "free-running load", "keys": nKeys, "clients": workers, "requests_each": rounds}
	last, lastChange := int64(-1), time.Now()
	for {
		select {
		case <-allDone:
			inst.Close()
			rc.Stats.Inc("free_running_runs_completed", 1)
			return
		case <-time.After(200 * time.Millisecond):
		}
		if c := completed.Load(); c != last {
			last, lastChange = c, time.Now()
			continue
		}
		if time.Since(lastChange) < 10*time.Second {
			continue
		}
		// No request has completed for ten seconds.  Two dumps, four seconds apart.
		d1, busy1 := blockedInDirk(fullDump())
		time.Sleep(4 * time.Second)
		d2, busy2 := blockedInDirk(fullDump())
		if busy1 || busy2 {
			continue // something is still running: slow, not stuck
		}
		if completed.Load() != last {
			last, lastChange = completed.Load(), time.Now()
			continue
		}
		var same []string
		for id, where := range d1 {
			if d2[id] == where {
				same = append(same, where)
			}
		}
		if len(same) >= 2 {
			rc.Violate("C15", "requests-wait-for-ever", fmt.Sprintf("%d of %d requests completed, then none for 14 s while %d requests stayed blocked at the same place and nothing else was running, e.g. %s | %s",
				last, total, len(same), strings.TrimSpace(same[0]), strings.TrimSpace(same[1])), int(last))
			// The blocked threads cannot be unwound; the instance is abandoned with them.
			return
		}
		if time.Since(lastChange) > 90*time.Second {
			rc.Violate("HARNESS", "free-load-stalled", fmt.Sprintf("no progress for 90 s at %d of %d requests, but no stable set of blocked request threads", last, total), int(last))
			return
		}
	}
}

// runFreeWire is the free-running layer of C20: a fresh instance (cold caches) receives 8-24 requests at the
// same instant, all of one service in half of the runs, repeated for a few volleys.  The oracle is C20's: every
// request is answered, nothing panics on a handler goroutine, and the process (= the instance) survives; a
// death is picked up by the driver from the seed written ahead of the run and confirmed by replaying it.
func runFreeWire(t *testing.T, rc *RunCtx) {
	InitBLS()
	ch := rc.Ch
	// Real parallelism is the point of this layer.
	prev := runtime.GOMAXPROCS(max(8, runtime.NumCPU()))
	defer runtime.GOMAXPROCS(prev)
	s := NewSched(rc, SchedCfg{})
	defer s.Close()
	w1 := WalletSpec{Name: "Wallet 1", Kind: "nd"}
	for i := 0; i < 48; i++ {
		w1.Accounts = append(w1.Accounts, fmt.Sprintf("Account %d", i))
	}
	w2 := WalletSpec{Name: "Wallet 2", Kind: "nd", Accounts: []string{"Account 0", "Canary"}}
	c := NewCluster(t, rc, s, ClusterCfg{IDs: []uint64{1, 2}, Specs: []WalletSpec{w1, w2, {Name: "Wallet 3", Kind: "distributed"}}})
	defer c.Close()
	n := c.Nodes[0]
	g := &wireGen{rc: rc, pop: n.Pop, epoch: map[int]uint64{}}
	// The first volley meets cold caches and lazily built state: it is homogeneous (one service) in most runs.
	focus := []string{"", "Lister.", "Lister.", "Signer.", "Signer.", "AccountManager.", "WalletManager."}[ch.Pick(7, 0)]
	volleys := 1 + ch.Pick(4, 0)
	var desc []string
	for v := 0; v < volleys && len(rc.Viol) == 0; v++ {
		k := 8 + ch.Pick(25, 0)
		if v > 0 && ch.Pick(2, 0) == 1 {
			focus = ""
		}
		var calls []wireCall
		for tries := 0; len(calls) < k && tries < 400; tries++ {
			wc := g.next()
			if strings.HasPrefix(wc.name, "DKG.") || (focus != "" && !strings.HasPrefix(wc.name, focus)) {
				continue
			}
			if m, ok := wc.req.(*pb.MultisignRequest); ok && len(m.GetRequests()) > 100 {
				continue
			}
			if m, ok := wc.req.(*pb.SignBeaconAttestationsRequest); ok && len(m.GetRequests()) > 100 {
				continue
			}
			calls = append(calls, wc)
		}
		for i, wc := range calls {
			fmt.Printf("VERIF-C20-REQUEST seed=%d volley %d #%d %s: %s\n", rc.Seed, v, i, wc.name, truncate(fmt.Sprint(wc.req), 200))
			desc = append(desc, wc.name)
		}
		type res struct {
			panicked string
			answered bool
			nothing  bool
		}
		out := make([]res, len(calls))
		var wg sync.WaitGroup
		start := make(chan struct{})
		for i := range calls {
			wg.Add(1)
			go func(i int) {
				defer wg.Done()
				wc := calls[i]
				ctx := n.Inst.ClientCtx([]string{"client1", "client2"}[i%2], "")
				<-start
				m, err, p, a := callGuarded(30*time.Second, func() (proto.Message, error) { return wc.call(ctx, n, wc.req) })
				out[i] = res{p, a, a && p == "" && m == nil && err == nil}
			}(i)
		}
		close(start)
		wg.Wait()
		rc.Stats.Inc("requests", int64(len(calls)))
		rc.Stats.Inc("free_running_volleys", 1)
		for i, r := range out {
			switch {
			case r.panicked != "":
				rc.Violate("C20", "panic-in-handler", fmt.Sprintf("%s among %d simultaneous requests: %s", calls[i].name, len(calls), r.panicked), v)
			case !r.answered:
				rc.Violate("C20", "request-never-answered", fmt.Sprintf("%s among %d simultaneous requests", calls[i].name, len(calls)), v)
			}
		}
	}
	// A quarter of the runs: churn.  One or two clients keep creating accounts, locking and unlocking accounts and
	// wallets (well-formed, permitted requests that change the instance's in-memory state) while several others
	// sign by public key and list, all at once, until the creators are done.
	if len(rc.Viol) == 0 && ch.Pick(4, 0) == 3 {
		creators := 1 + ch.Pick(2, 0)
		perCreator := 6 + ch.Pick(12, 0)
		readers := 4 + ch.Pick(12, 0)
		var done atomic.Bool
		var wgC, wgR sync.WaitGroup
		var panics, unanswered atomic.Value
		var dynMu sync.Mutex
		var dynKeys [][]byte
		var reads, created atomic.Int64
		keys := [][]byte{}
		for _, a := range n.Pop.Accts[:8] {
			keys = append(keys, a.PubKey)
		}
		// ... and the account the creators keep locking and unlocking: a request for it may find it locked at
		// any stage, including the last one.
		if a := n.Pop.ByPath("Wallet 1/Account 40"); a != nil {
			keys = append(keys, a.PubKey, a.PubKey)
		}
		for cIdx := 0; cIdx < creators; cIdx++ {
			wgC.Add(1)
			go func(cIdx int) {
				defer wgC.Done()
				ctx := n.Inst.ClientCtx("client1", "")
				for i := 0; i < perCreator && unanswered.Load() == nil; i++ {
					_, _, p, answered := callGuarded(30*time.Second, func() (proto.Message, error) {
						r, err := n.Inst.AcctH.Generate(ctx, &pb.GenerateRequest{Account: fmt.Sprintf("Wallet 1/churn %d %d %d", rc.Seed%1000, cIdx, i), Passphrase: []byte("pass"), Participants: 1, SigningThreshold: 1})
						if err == nil && r.GetState() == pb.ResponseState_SUCCEEDED {
							created.Add(1)
							// the new account's key joins the keys the other clients sign with
							dynMu.Lock()
							dynKeys = append(dynKeys, r.GetPublicKey())
							dynMu.Unlock()
						}
						return r, err
					})
					if p != "" {
						panics.Store("AccountManager.Generate: " + p)
					}
					if !answered {
						unanswered.Store(fmt.Sprintf("AccountManager.Generate (creation %d of creator %d, after %d requests of %d other clients)", i, cIdx, reads.Load(), readers))
						return
					}
					switch i % 4 {
					case 1:
						_, _ = n.Inst.AcctH.Lock(ctx, &pb.LockAccountRequest{Account: "Wallet 1/Account 40"})
					case 2:
						_, _ = n.Inst.AcctH.Unlock(ctx, &pb.UnlockAccountRequest{Account: "Wallet 1/Account 40", Passphrase: []byte("pass")})
					case 3:
						_, _ = n.Inst.WalletH.Unlock(ctx, &pb.UnlockWalletRequest{Wallet: "Wallet 1", Passphrase: []byte("pass")})
					}
				}
			}(cIdx)
		}
		for rIdx := 0; rIdx < readers; rIdx++ {
			wgR.Add(1)
			go func(rIdx int) {
				defer wgR.Done()
				// Half of the readers are clients without any permission: their requests end right after the
				// account lookup, so they perform lookups at a much higher rate.
				ctx := n.Inst.ClientCtx([]string{"client1", "nobody", "client2", "nobody"}[rIdx%4], "")
				for u := uint64(0); !done.Load() && unanswered.Load() == nil; u++ {
					var p string
					var answered bool
					what := "Signer.Sign by public key"
					if rIdx%8 == 6 {
						what = "Lister.ListAccounts"
						_, _, p, answered = callGuarded(30*time.Second, func() (proto.Message, error) {
							return n.Inst.ListerH.ListAccounts(ctx, &pb.ListAccountsRequest{Paths: []string{"Wallet 1"}})
						})
					} else if rIdx%8 == 5 && u%3 == 0 {
						// now and then a name nobody has: an ordinary mistake of a client
						what = "Signer.Sign for an account that does not exist"
						_, _, p, answered = callGuarded(30*time.Second, func() (proto.Message, error) {
							return n.Inst.SignerH.Sign(ctx, &pb.SignRequest{Id: &pb.SignRequest_Account{Account: fmt.Sprintf("Wallet 1/No such account %d", u)}, Data: h32("churn", rIdx, u), Domain: MkDomain([4]byte{7, 0, 0, 0}, u)})
						})
					} else {
						key := keys[int(u)%len(keys)]
						if u%2 == 1 {
							// every other request addresses an account created a moment ago, by its public key
							dynMu.Lock()
							if len(dynKeys) > 0 {
								key = dynKeys[int(u/2)%len(dynKeys)]
							}
							dynMu.Unlock()
						}
						_, _, p, answered = callGuarded(30*time.Second, func() (proto.Message, error) {
							return n.Inst.SignerH.Sign(ctx, &pb.SignRequest{Id: &pb.SignRequest_PublicKey{PublicKey: key}, Data: h32("churn", rIdx, u), Domain: MkDomain([4]byte{7, 0, 0, 0}, u)})
						})
					}
					if !answered && p == "" {
						unanswered.Store(what + " during the churn phase")
						return
					}
					reads.Add(1)
					if p != "" {
						panics.Store("request during churn: " + p)
						return
					}
				}
			}(rIdx)
		}
		wgC.Wait()
		done.Store(true)
		wgR.Wait()
		rc.Stats.Inc("free_running_churn_phases", 1)
		rc.Stats.Inc("churn_accounts_created", created.Load())
		rc.Stats.Inc("requests", reads.Load())
		desc = append(desc, fmt.Sprintf("churn %d creators x %d, %d readers", creators, perCreator, readers))
		if p, _ := panics.Load().(string); p != "" {
			rc.Violate("C20", "panic-in-handler", p, volleys)
		}
		if u, _ := unanswered.Load().(string); u != "" && len(rc.Viol) == 0 {
			rc.Violate("C20", "request-never-answered", fmt.Sprintf("%s got neither a response nor an error within 30 s while accounts were being created (%d created so far)", u, created.Load()), volleys)
		}
	}
	if len(rc.Viol) > 0 {
		// Something already went unanswered or died: the run ends here (waiting out more guards only costs time).
		rc.Stats.Seen("cases", fmt.Sprintf("freewire/%s/%d/%s", focus, volleys, hexShort(h32(desc))))
		return
	}
	// Canary.
	canaryAcct := n.Pop.ByPath("Wallet 2/Canary")
	e := AttEntry(canaryAcct.idx, 1, 2, 1_000_000)
	cres, cerr, cp, cans := callGuarded(30*time.Second, func() (proto.Message, error) {
		return n.Inst.SignerH.SignBeaconAttestation(n.Inst.ClientCtx("client2", ""), &pb.SignBeaconAttestationRequest{
			Id: &pb.SignBeaconAttestationRequest_Account{Account: canaryAcct.Path}, Domain: e.Domain, Data: e.attData()})
	})
	if len(rc.Viol) == 0 {
		if !(cans && cp == "" && cerr == nil && cres != nil && cres.(*pb.SignResponse).GetState() == pb.ResponseState_SUCCEEDED) {
			rc.Violate("C20", "instance-stopped-serving", fmt.Sprintf("after %d volleys of simultaneous requests the canary request was not served (answered=%v panic=%q err=%v res=%v)", volleys, cans, cp, cerr, cres), volleys)
		}
		rc.Stats.Inc("canaries_served", 1)
	}
	rc.Stats.Seen("cases", fmt.Sprintf("freewire/%s/%d/%s", focus, volleys, hexShort(h32(desc))))
	rc.Sample = map[string]any{"layer": "free-running volleys", "focus": focus, "volleys": volleys, "requests": len(desc)}
}

func init() {
	noBubble["C15:free"] = true
	noBubble["C20:free"] = true
}

// runLifeFree is the free-running layer of C17: several prepare messages for one account name reach one
// instance at the same instant (real goroutines, all processors).  The name was idle before, nothing aborts or
// commits in between and the timeout is far away, so exactly one of them opens the session and every other
// one finds it active and is refused; the same is then asked of simultaneous aborts (exactly one finds a
// session to abort) and of a prepare racing an abort (afterwards the name is either idle or active, and a
// further prepare is answered accordingly).
func runLifeFree(t *testing.T, rc *RunCtx) {
	InitBLS()
	ch := rc.Ch
	prev := runtime.GOMAXPROCS(max(8, runtime.NumCPU()))
	defer runtime.GOMAXPROCS(prev)
	s := NewSched(rc, SchedCfg{})
	defer s.Close()
	c := NewCluster(t, rc, s, ClusterCfg{IDs: []uint64{1, 2, 3}, Timeout: 10 * time.Minute})
	defer c.Close()
	co := &coordinator{c: c}
	rounds := 6 + ch.Pick(10, 0)
	for r := 0; r < rounds && len(rc.Viol) == 0; r++ {
		target := c.Nodes[ch.Pick(3, 0)]
		acct := fmt.Sprintf("Wallet 3/free %d %d", rc.Seed%100000, r)
		k := 2 + ch.Pick(10, 0)
		var wg sync.WaitGroup
		start := make(chan struct{})
		okPrep := make([]bool, k)
		for i := 0; i < k; i++ {
			wg.Add(1)
			go func(i int) {
				defer wg.Done()
				as := c.Nodes[i%3].Name
				<-start
				okPrep[i] = co.prepare(target, as, acct, uint32(2+i%2), c.Nodes) == nil
			}(i)
		}
		close(start)
		wg.Wait()
		accepted := 0
		for _, ok := range okPrep {
			if ok {
				accepted++
			}
		}
		rc.Stats.Inc("free_simultaneous_prepares", int64(k))
		if accepted != 1 {
			rc.Violate("C17", "prepare-accepted-while-active", fmt.Sprintf("%d prepare messages for %q reached %s at the same instant (idle name, no abort or commit in between, timeout far away) and %d of them were accepted", k, acct, target.Name, accepted), r)
			return
		}
		// simultaneous aborts: exactly one finds the session
		okAb := make([]bool, k)
		start2 := make(chan struct{})
		for i := 0; i < k; i++ {
			wg.Add(1)
			go func(i int) {
				defer wg.Done()
				<-start2
				okAb[i] = co.abort(target, c.Nodes[i%3].Name, acct) == nil
			}(i)
		}
		close(start2)
		wg.Wait()
		aborted := 0
		for _, ok := range okAb {
			if ok {
				aborted++
			}
		}
		rc.Stats.Inc("free_simultaneous_aborts", int64(k))
		if aborted != 1 {
			rc.Violate("C17", "abort-without-session", fmt.Sprintf("%d abort messages for the one active session %q on %s at the same instant: %d were accepted", k, acct, target.Name, aborted), r)
			return
		}
		// gone: a new generation may start, and is then active
		if err := co.prepare(target, c.Nodes[0].Name, acct, 2, c.Nodes); err != nil {
			rc.Violate("C17", "prepare-refused-while-idle", fmt.Sprintf("after the abort of %q on %s a new prepare was refused: %v", acct, target.Name, err), r)
			return
		}
		_ = co.abort(target, c.Nodes[0].Name, acct)
	}
	rc.Stats.Inc("free_running_rounds", int64(rounds))
	rc.Stats.Seen("cases", fmt.Sprintf("lifefree/%d/%d", rounds, rc.Seed))
	rc.Sample = map[string]any{"layer": "free-running simultaneous messages", "rounds": rounds}
}

func init() {
	noBubble["C17:free"] = true
}

// runBatchFree is the free-running layer of C08 and C01: two to four attestation batches over disjoint keys of a
// large wallet are in flight at once on all processors, round after round.  C08 asks that every returned
// signature verifies under the key of the account addressed at that position; C01 attributes every returned
// signature to the key it actually verifies under (among the keys named in its request) and keeps the pairwise
// ledger per signing key - two entries of one request signed by the same key are two different attestations
// with one target.
func runBatchFree(t *testing.T, rc *RunCtx, prop string) {
	InitBLS()
	ch := rc.Ch
	prev := runtime.GOMAXPROCS(max(8, runtime.NumCPU()))
	defer runtime.GOMAXPROCS(prev)
	pop := BigPopulation(t)
	s := NewSched(rc, SchedCfg{})
	defer s.Close()
	inst, err := NewInstance(s, "free", InstCfg{Dir: NewRunDir(t), Pop: pop, Permissions: FullPermissions("client1"), AdminIPs: []string{"10.0.0.1"}})
	if err != nil {
		t.Fatalf("instance: %v", err)
	}
	defer inst.Close()
	ledger := NewLedger()
	rounds := 4 + ch.Pick(12, 0)
	uniq := uint64(0)
	for r := 0; r < rounds && len(rc.Viol) == 0; r++ {
		m := 2 + ch.Pick(3, 0)
		size := 4 + ch.Pick(45, 0)
		start := ch.Pick(len(pop.Accts)-m*size, 0)
		ops := make([]*Op, m)
		res := make([]*OpResult, m)
		for q := range ops {
			o := &Op{Kind: "atts", Client: "client1"}
			for j := 0; j < size; j++ {
				uniq++
				e := AttEntry(start+q*size+j, uint64(r), uint64(r+1), uniq)
				e.ByKey = ch.Pick(3, 0) == 1
				o.Entries = append(o.Entries, e)
			}
			ops[q] = o
		}
		volley := func() {
			var wg sync.WaitGroup
			begin := make(chan struct{})
			for q := range ops {
				wg.Add(1)
				go func(q int) {
					defer wg.Done()
					<-begin
					res[q] = ops[q].Exec(inst)
				}(q)
			}
			close(begin)
			wg.Wait()
		}
		volley()
		// C01: the same validators are then asked, again all at once, for a different attestation with the same target
		// (whatever the parallel batches did to each other's records, none of these may be signed).
		for pass := 0; pass < 2; pass++ {
			if pass == 1 {
				if prop != "C01" {
					break
				}
				for q := range ops {
					o := &Op{Kind: "atts", Client: "client1"}
					for _, e0 := range ops[q].Entries {
						uniq++
						e := AttEntry(e0.Acct, e0.Src, e0.Tgt, uniq)
						e.ByKey = e0.ByKey
						o.Entries = append(o.Entries, e)
					}
					ops[q] = o
				}
				res = make([]*OpResult, m)
				volley()
				rc.Stats.Inc("free_running_conflicting_rounds", 1)
			}
			judgeBatchFree(rc, prop, pop, ledger, ops, res, r)
		}
		rc.Stats.Inc("free_running_batch_rounds", 1)
	}
	rc.Stats.Seen("cases", fmt.Sprintf("batchfree/%d/%d", rounds, rc.Seed))
	rc.Sample = map[string]any{"layer": "free-running parallel batches", "rounds": rounds}
}

func judgeBatchFree(rc *RunCtx, prop string, pop *Population, ledger *Ledger, ops []*Op, res []*OpResult, r int) {
	{
		for q, o := range ops {
			if prop == "C08" {
				Monitor(rc, ledger, pop, o, res[q], r, false)
				continue
			}
			for i := range o.Entries {
				if !res[q].OK(i) || i >= len(res[q].Sigs) {
					continue
				}
				e := &o.Entries[i]
				signer := -1
				if VerifySig(pop.Accts[e.Acct].PubKey, res[q].Sigs[i], e.ObjectRoot(o.Kind), e.Domain) {
					signer = e.Acct
				} else {
					for j := range o.Entries {
						if VerifySig(pop.Accts[o.Entries[j].Acct].PubKey, res[q].Sigs[i], e.ObjectRoot(o.Kind), e.Domain) {
							signer = o.Entries[j].Acct
							break
						}
					}
				}
				if signer >= 0 {
					ledger.AddAtt(rc, pop.Accts[signer].KName, e, r)
				}
				rc.Stats.Inc("signatures_released", 1)
			}
		}
	}
}

func init() {
	noBubble["C08:free"] = true
	noBubble["C01:free"] = true
}
