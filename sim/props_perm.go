package sim

import (
	"bytes"
	"context"
	"fmt"
	"regexp"
	"sort"
	"strings"
	"testing"

	"github.com/attestantio/dirk/services/checker"
	pb "github.com/wealdtech/eth2-signer-api/pb/v1"
)

// Reference permission evaluator, written from the statement of C07: scan the client's entries
// in order; within each entry whose wallet and account patterns match the WHOLE actual name
// case-insensitively, scan its operations in order; the first item that bears on the operation decides.
type refTable map[string][]*checker.Permissions

func wholeMatch(pattern, name string) bool {
	if pattern == "" {
		return true
	}
	re, err := regexp.Compile(`(?i)\A(?:` + pattern + `)\z`)
	if err != nil {
		return false
	}
	return re.MatchString(name)
}

func splitPath(p string) (string, string) {
	if i := strings.IndexByte(p, '/'); i >= 0 {
		return p[:i], p[i+1:]
	}
	return p, ""
}

func (rt refTable) allows(client, wallet, account, op string) bool {
	if client == "" {
		return false
	}
	entries, ok := rt[client]
	if !ok {
		return false
	}
	for _, e := range entries {
		wp, ap := splitPath(e.Path)
		if !wholeMatch(wp, wallet) || !wholeMatch(ap, account) {
			continue
		}
		for _, item := range e.Operations {
			switch {
			case strings.EqualFold(item, "None") || strings.EqualFold(item, "~"+op):
				return false
			case strings.EqualFold(item, "All") || strings.EqualFold(item, op):
				return true
			}
		}
	}
	return false
}

var permOps = []string{"Sign", "Sign beacon attestation", "Sign beacon proposal", "Access account", "Lock account", "Unlock account", "Create account", "Lock wallet", "Unlock wallet"}

var permWallets = []WalletSpec{
	// Account names are free-form: some contain the path separator, and some would read as another account's path if
	// they were tidied up like file paths (they are names, not paths).
	{Name: "Wallet1", Kind: "nd", Accounts: []string{"acc1", "acc10", "Acc2", "xacc1", "sub/acc1", "./acc1", "sub/../acc1", "sub//acc1"}},
	{Name: "Wallet10", Kind: "nd", Accounts: []string{"acc1"}},
	{Name: "Wallet2", Kind: "nd", Accounts: []string{"acc1", "val-1", "../Wallet1/acc1", "val-1/."}},
	{Name: "xWallet2", Kind: "nd", Accounts: []string{"acc1"}},
	// one key held twice: under another name in the same wallet, and in another wallet (a validator moved, the old
	// entry still there).  Each of them is an account of its own, with its own name.
	{Name: "wallet3", Kind: "nd", Accounts: []string{"acc1", "acc1copy", "moved"}, SameKeyAs: map[string]string{"acc1copy": "wallet3/acc1", "moved": "Wallet10/acc1"}},
	{Name: "Empty", Kind: "nd"}, // holds nothing at start-up: whatever it lists was created through Dirk
}

var walletPatterns = []string{"Wallet1", "Wallet2", ".*", "Wallet.*", "Wallet[12]", "Wallet1|Wallet2", "Wallet2|Wallet1", "^Wallet1$", "wallet1", "WALLET2", "Wallet(1|2)", "Wallet1.?", "x?Wallet2", "Wallet10", "[a-z]+3", "Wallet1|xWallet2|wallet3", "Empty", "E.*|Wallet1",
	// an alternative that is a prefix of a later one, lazy quantifiers: the whole name decides, whichever alternative a matcher prefers
	"Wallet1|Wallet10", "Wallet1|Wallet10|Wallet2", "Wallet1.??", "Wallet.*?", "Wallet(1|10)", "(?:Wallet1|Wallet10)",
	// escape classes in both polarities, Unicode classes, POSIX classes, the pattern's own text anchors
	`Wallet\D`, `Wallet\d`, `Wallet\d+`, `\w+2`, `Wallet\S`, `\D+`, `\W?Wallet1`, `[[:alpha:]]+1`, `Wallet\x31`, `Wallet\pN`, `Wallet\PN`, `\AWallet2\z`, `Wallet1\b`, `Wallet\B1`}
var accountPatterns = []string{"", "acc1", "acc.*", "acc1|Acc2", "Acc2|acc1", "val-.*", "ACC1", ".*1", "^acc1$", "acc1.?", "(x)?acc1", "acc(1|10)", "acc1|acc10", "acc1|acc10|Acc2", "acc1.??", "acc.+?", "sub|sub/acc1", "made1", "made[0-9]+", "made1|made2|made3", "made.*",
	`acc\D`, `acc\d`, `acc\d{2}`, `val\W1`, `val\w1`, `\S+`, `\Aacc1\z`, `[[:^digit:]]+\d`, `acc\PL`,
	"sub/acc1", "sub/.*", ".*/acc1"}

func drawTable(rc *RunCtx) (refTable, []string) {
	ch := rc.Ch
	clients := []string{"alice", "bob", "carol", "dave"}[:1+ch.Pick(4, 0)]
	rt := refTable{}
	for _, c := range clients {
		n := 1 + ch.Pick(4, 0)
		for i := 0; i < n; i++ {
			path := walletPatterns[ch.Pick(len(walletPatterns), 0)]
			if i >= 2 && ch.Pick(3, 0) == 2 {
				// the wallet part of an entry written earlier (not the previous one), spelled the same way again
				path, _ = splitPath(rt[c][ch.Pick(i-1, 0)].Path)
			}
			if ap := accountPatterns[ch.Pick(len(accountPatterns), 0)]; ap != "" {
				path += "/" + ap
			}
			var ops []string
			k := 1 + ch.Pick(3, 0)
			for j := 0; j < k; j++ {
				switch ch.Pick(6, 0) {
				case 0:
					ops = append(ops, []string{"All", "all", "ALL"}[ch.Pick(3, 0)])
				case 1:
					ops = append(ops, []string{"None", "none"}[ch.Pick(2, 0)])
				case 2, 3:
					o := permOps[ch.Pick(len(permOps), 0)]
					if ch.Pick(4, 0) == 3 {
						o = strings.ToUpper(o)
					}
					ops = append(ops, o)
				default:
					ops = append(ops, "~"+permOps[ch.Pick(len(permOps), 0)])
				}
			}
			rt[c] = append(rt[c], &checker.Permissions{Path: path, Operations: ops})
		}
	}
	return rt, clients
}

func (rt refTable) String() string {
	var sb strings.Builder
	for _, c := range sortedKeys(rt) {
		fmt.Fprintf(&sb, "%s:", c)
		for _, e := range rt[c] {
			fmt.Fprintf(&sb, " {%q %v}", e.Path, e.Operations)
		}
		sb.WriteString("; ")
	}
	return sb.String()
}

type permWorld struct {
	rc      *RunCtx
	t       *testing.T
	s       *Sched
	c       *Cluster
	n       *Node
	rt      refTable
	clients []string
	epoch   map[string]uint64
	created int
	extra   []string // accounts created through Dirk in this run (paths)
}

func newPermWorld(t *testing.T, rc *RunCtx) *permWorld {
	InitBLS()
	rt, clients := drawTable(rc)
	s := NewSched(rc, SchedCfg{StayBias: 0.5, MaxSteps: 1 << 20})
	// Two instances with the same wallets and the same permission table: a distributed account is created by both.
	c := NewCluster(t, rc, s, ClusterCfg{IDs: []uint64{1, 2}, Perms: map[string][]*checker.Permissions(rt), Specs: append(append([]WalletSpec{}, permWallets...), WalletSpec{Name: "Dist", Kind: "distributed"})})
	return &permWorld{rc: rc, t: t, s: s, c: c, n: c.Nodes[0], rt: rt, clients: clients, epoch: map[string]uint64{}}
}

func (w *permWorld) close() { w.c.Close(); w.s.Close() }

func (w *permWorld) pickClient() string {
	ch := w.rc.Ch
	switch ch.Pick(8, 0) {
	case 0:
		return ""
	case 1:
		return "mallory"
	case 2:
		return strings.ToUpper(w.clients[0])
	default:
		return w.clients[ch.Pick(len(w.clients), 0)]
	}
}

// runPerm is the body of C07.
func runPerm(t *testing.T, rc *RunCtx) {
	if rc.Param("mode", "") == "daemon" {
		runDaemonPerm(t, rc, "C07")
		return
	}
	ch := rc.Ch
	w := newPermWorld(t, rc)
	defer w.close()
	pop := w.n.Pop
	inst := w.n.Inst
	nOps := 10 + ch.Pick(30, 0)
	var desc []string
	before, _ := inst.Export()
	for i := 0; i < nOps && len(rc.Viol) == 0; i++ {
		client := w.pickClient()
		a := pop.Accts[ch.Pick(len(pop.Accts), 0)]
		byKey := ch.Pick(3, 0) == 2
		keyPad := 0
		if !byKey && ch.Pick(8, 0) == 7 {
			keyPad = 1 + ch.Pick(2, 0) // addressed by public key followed by junk bytes (resolves to the same account)
		}
		if a.DupKey {
			byKey, keyPad = false, 0 // two accounts hold this key: only the name says which one is meant
		}
		opIdx := ch.Pick(len(permOps), 0)
		op := permOps[opIdx]
		ctx := inst.ClientCtx(client, "")
		wallet, account := a.Wallet, a.Name
		served := false
		what := ""
		w.epoch[a.KName]++
		ep := w.epoch[a.KName]
		switch op {
		case "Sign":
			o := &Op{Kind: "gen", Client: client, Entries: []Entry{GenEntry(a.idx, MkDomain([4]byte{7, 0, 0, 0}, ep), uint64(i+1))}}
			o.Entries[0].ByKey, o.Entries[0].KeyPad = byKey, keyPad
			if ch.Pick(4, 0) == 3 {
				o.Kind = "multi"
			}
			served = o.Exec(inst).OK(0)
		case "Sign beacon attestation":
			o := &Op{Kind: "att", Client: client, Entries: []Entry{AttEntry(a.idx, ep, ep+1, uint64(i+1))}}
			o.Entries[0].ByKey, o.Entries[0].KeyPad = byKey, keyPad
			if ch.Pick(4, 0) == 3 {
				o.Kind = "atts"
			}
			served = o.Exec(inst).OK(0)
		case "Sign beacon proposal":
			o := &Op{Kind: "prop", Client: client, Entries: []Entry{PropEntry(a.idx, ep, uint64(i+1))}}
			o.Entries[0].ByKey, o.Entries[0].KeyPad = byKey, keyPad
			served = o.Exec(inst).OK(0)
		case "Access account":
			paths := []string{a.Wallet + "/" + regexp.QuoteMeta(a.Name)}
			if ch.Pick(2, 0) == 1 {
				// The same request also names the like-named account of another wallet first: what is decided for
				// that one must not be taken for this one.
				other := permWallets[ch.Pick(len(permWallets), 0)].Name
				if other != a.Wallet {
					paths = append([]string{other + "/" + regexp.QuoteMeta(a.Name)}, paths...)
				}
			}
			res, err := inst.ListerH.ListAccounts(ctx, &pb.ListAccountsRequest{Paths: paths})
			if err == nil && res != nil {
				for _, x := range res.GetAccounts() {
					if x.GetName() == a.Path {
						served = true
					}
				}
			}
		case "Lock account":
			res, err := inst.AcctH.Lock(ctx, &pb.LockAccountRequest{Account: a.Path})
			served = err == nil && res.GetState() == pb.ResponseState_SUCCEEDED
		case "Unlock account":
			res, err := inst.AcctH.Unlock(ctx, &pb.UnlockAccountRequest{Account: a.Path, Passphrase: []byte("pass")})
			served = err == nil && res.GetState() == pb.ResponseState_SUCCEEDED
		case "Create account":
			w.created++
			account = fmt.Sprintf("made%d", w.created)
			// Sometimes the requested name carries white space around it: whatever name the account ends up with
			// is the one the decision has to hold for.
			reqAccount := account
			switch ch.Pick(8, 0) {
			case 5:
				reqAccount = " " + account
			case 6:
				reqAccount = account + " "
			case 7:
				reqAccount = "\t" + account + "\n"
			}
			parts, thr := uint32(1), uint32(1)
			if ch.Pick(4, 0) == 3 {
				// a distributed account: the same operation, carried out by both instances
				wallet, parts, thr = "Dist", 2, 2
				rc.Stats.Inc("distributed_creations_requested", 1)
			}
			res, err := inst.AcctH.Generate(ctx, &pb.GenerateRequest{Account: wallet + "/" + reqAccount, Passphrase: []byte("pass"), Participants: parts, SigningThreshold: thr})
			served = err == nil && res.GetState() == pb.ResponseState_SUCCEEDED
			if !served && parts > 1 {
				// not reported as created: then nothing was created anywhere
				for _, nd := range w.c.Nodes {
					if st, ca := nd.hasAccount(wallet + "/" + strings.TrimSpace(reqAccount)); st || ca {
						served = true
						rc.Stats.Inc("distributed_creation_refused_but_account_exists", 1)
					}
				}
			}
			if served && parts == 1 {
				account = reqAccount
				if _, _, ferr := inst.FetcherW.Service.FetchAccount(context.Background(), wallet+"/"+reqAccount); ferr != nil {
					// not stored under the requested name: look for the name it was given
					for _, cand := range []string{strings.TrimSpace(reqAccount), strings.ToLower(reqAccount)} {
						if _, _, e2 := inst.FetcherW.Service.FetchAccount(context.Background(), wallet+"/"+cand); e2 == nil {
							account = cand
							rc.Stats.Inc("created_under_another_name_than_requested", 1)
						}
					}
				}
			}
		case "Lock wallet":
			account = ""
			// The wallet is resolved from the part before the first '/': whatever follows must not matter.
			reqName := wallet
			if ch.Pick(3, 0) == 2 {
				reqName = wallet + "/" + []string{a.Name, "acc1", "anything", ""}[ch.Pick(4, 0)]
			}
			res, err := inst.WalletH.Lock(ctx, &pb.LockWalletRequest{Wallet: reqName})
			served = err == nil && res.GetState() == pb.ResponseState_SUCCEEDED
		case "Unlock wallet":
			account = ""
			reqName := wallet
			if ch.Pick(3, 0) == 2 {
				reqName = wallet + "/" + []string{a.Name, "acc1", "anything", ""}[ch.Pick(4, 0)]
			}
			res, err := inst.WalletH.Unlock(ctx, &pb.UnlockWalletRequest{Wallet: reqName, Passphrase: []byte("pass")})
			served = err == nil && res.GetState() == pb.ResponseState_SUCCEEDED
		}
		want := w.rt.allows(client, wallet, account, op)
		what = fmt.Sprintf("%s %q on %s/%s bykey=%v: served=%v reference=%v", op, client, wallet, account, byKey, served, want)
		desc = append(desc, what)
		rc.Logf("%s", what)
		rc.Stats.Seen("cases", fmt.Sprintf("%s|%s|%s|%v|%v", op, wallet, account, want, client == ""))
		if served && !want {
			rc.Violate("C07", "served-without-permission", fmt.Sprintf("%s; permissions: %s", what, w.rt), i)
		}
		if !served && want {
			rc.Stats.Inc("allowed_but_not_served", 1)
		}
		if served {
			rc.Stats.Inc("served", 1)
		} else {
			rc.Stats.Inc("refused", 1)
		}
		after, err := inst.Export()
		if err == nil {
			if !served && ExportString(trimEmpty(after)) != ExportString(trimEmpty(before)) {
				rc.Violate("C07", "refused-request-changed-state", fmt.Sprintf("%s: slashing database went from %s to %s", what, ExportString(before), ExportString(after)), i)
			}
			before = after
		}
	}
	if len(desc) > 12 {
		desc = desc[:12]
	}
	rc.Sample = map[string]any{"permissions": w.rt.String(), "operations": desc}
}

// runList is the body of C18.
func runList(t *testing.T, rc *RunCtx) {
	if rc.Param("mode", "") == "daemon" {
		runDaemonPerm(t, rc, "C18")
		return
	}
	ch := rc.Ch
	w := newPermWorld(t, rc)
	defer w.close()
	pop := w.n.Pop
	inst := w.n.Inst
	type acct struct {
		wallet, name string
		key          []byte
	}
	var all []acct
	for _, a := range pop.Accts {
		all = append(all, acct{a.Wallet, a.Name, a.PubKey})
	}
	pathPool := []string{"Wallet1", "Wallet2", "Wallet10", "xWallet2", "wallet3", "Wallet1/acc1", "Wallet1/acc.*", "Wallet1/acc1|Acc2", "Wallet1/.*1", "Wallet2/val-.*", "Wallet1/made.*",
		"Nowhere", "Nowhere/acc1", "", "/acc1", "Empty", "Empty/made.*",
		// a literal start followed at once by an optional or repeatable character
		"Wallet1/acc10?", "Wallet1/acc1?0?", "Wallet1/accx*1", "Wallet1/acc1{0,2}", "Wallet1/Ac*c2", "Wallet1/made1?[0-9]", "Wallet2/val-?1?.*", "Wallet1/x?acc1", "Wallet1/[unclosed", "wallet1", "Wallet1/ACC1", "Wallet1/^acc1$", "Dist"}
	rounds := 4 + ch.Pick(10, 0)
	var desc []string
	maybe := map[string]bool{} // accounts whose creation was abandoned by the client and not reported as done
	// Creations and listings concentrate on one wallet, so that create / list / create / list sequences on the
	// same wallet are common.
	focus := permWallets[ch.Pick(len(permWallets), 0)].Name
	for r := 0; r < rounds && len(rc.Viol) == 0; r++ {
		// Often create an account through Dirk first (it must show up without a restart).
		if ch.Pick(2, 0) == 1 {
			creator := w.clients[ch.Pick(len(w.clients), 0)]
			wl := focus
			if ch.Pick(3, 0) == 2 {
				wl = permWallets[ch.Pick(len(permWallets), 0)].Name
			}
			w.created++
			name := fmt.Sprintf("made%d", w.created)
			// A fifth of the creating clients go away while the instance is still at work on their request: the
			// request context is cancelled at the k-th operation on the wallet store (or right at the start).
			cctx := inst.ClientCtx(creator, "")
			abandoned := false
			if ch.Pick(5, 0) == 4 {
				var cancel context.CancelFunc
				cctx, cancel = context.WithCancel(cctx)
				defer cancel()
				at, seen := ch.Pick(4, 0), 0
				abandoned = true
				if at == 0 {
					cancel()
				}
				w.n.StoreHook = func(op string) {
					seen++
					if seen == at {
						cancel()
					}
				}
				rc.Stats.Inc("creations_abandoned_by_their_client", 1)
			}
			res, err := inst.AcctH.Generate(cctx, &pb.GenerateRequest{Account: wl + "/" + name, Passphrase: []byte("pass"), Participants: 1, SigningThreshold: 1})
			w.n.StoreHook = nil
			if err == nil && res.GetState() == pb.ResponseState_SUCCEEDED {
				all = append(all, acct{wl, name, res.GetPublicKey()})
				rc.Stats.Inc("accounts_created_through_dirk", 1)
				desc = append(desc, "create "+wl+"/"+name)
				if abandoned {
					rc.Stats.Inc("abandoned_creations_reported_as_succeeded", 1)
					desc[len(desc)-1] += " (client gone)"
				}
			} else if abandoned {
				// Not reported as created: the account may exist or not; a listing may show it or not.
				maybe[wl+"/"+name] = true
			}
		}
		client := w.pickClient()
		np := 1 + ch.Pick(3, 0)
		paths := make([]string, np)
		for i := range paths {
			paths[i] = pathPool[ch.Pick(len(pathPool), 0)]
		}
		if ch.Pick(2, 0) == 1 {
			paths[ch.Pick(np, 0)] = focus
		}
		res, err := inst.ListerH.ListAccounts(inst.ClientCtx(client, ""), &pb.ListAccountsRequest{Paths: paths})
		desc = append(desc, fmt.Sprintf("list %q %q", client, paths))
		if err != nil || res == nil {
			continue
		}
		got := map[string][]byte{}
		for _, x := range res.GetAccounts() {
			got[x.GetName()] = x.GetPublicKey()
		}
		for _, x := range res.GetDistributedAccounts() {
			got[x.GetName()] = x.GetPublicKey()
		}
		requestedWallets := map[string]bool{}
		for _, p := range paths {
			wn, _ := splitPath(p)
			requestedWallets[wn] = true
		}
		// Soundness: nothing the client may not access, nothing outside the requested wallets, own name and key.
		for name, key := range got {
			wn, an := splitPath(name)
			var known *acct
			for i := range all {
				if all[i].wallet == wn && all[i].name == an {
					known = &all[i]
				}
			}
			switch {
			case known == nil && maybe[name]:
				rc.Stats.Inc("listed_account_of_an_abandoned_creation", 1)
			case known == nil:
				rc.Violate("C18", "unknown-account-listed", fmt.Sprintf("client %q paths %q: %s is not an account of this instance", client, paths, name), r)
			case !requestedWallets[wn]:
				rc.Violate("C18", "account-outside-requested-wallets", fmt.Sprintf("client %q paths %q: %s returned", client, paths, name), r)
			case !w.rt.allows(client, wn, an, "Access account"):
				rc.Violate("C18", "inaccessible-account-listed", fmt.Sprintf("client %q paths %q: %s returned although the client lacks Access account; permissions: %s", client, paths, name, w.rt), r)
			case !bytes.Equal(known.key, key):
				rc.Violate("C18", "wrong-public-key", fmt.Sprintf("client %q paths %q: %s returned with another account's key", client, paths, name), r)
			}
		}
		// Completeness: every accessible account whose name whole-matches a requested path.
		for _, a := range all {
			if !w.rt.allows(client, a.wallet, a.name, "Access account") {
				continue
			}
			matches := false
			for _, p := range paths {
				wn, ap := splitPath(p)
				if wn == "" || wn != a.wallet {
					continue
				}
				if ap == "" {
					matches = true
					continue
				}
				if re, err := regexp.Compile(`\A(?:` + ap + `)\z`); err == nil && re.MatchString(a.name) {
					// The same pattern must also be acceptable to Dirk's own anchoring, or the path is malformed for it.
					if _, err2 := regexp.Compile("^" + strings.TrimSuffix(strings.TrimPrefix(ap, "^"), "$") + "$"); err2 == nil {
						matches = true
					}
				}
			}
			if matches {
				rc.Stats.Inc("completeness_obligations", 1)
				if _, ok := got[a.wallet+"/"+a.name]; !ok {
					rc.Violate("C18", "accessible-account-missing", fmt.Sprintf("client %q paths %q: %s/%s is accessible and matches a requested path but was not returned (returned: %v); permissions: %s", client, paths, a.wallet, a.name, keysOf(got), w.rt), r)
				}
			}
		}
		rc.Stats.Seen("cases", fmt.Sprintf("%v|%d|%v", paths, len(got), client == ""))
		rc.Stats.Inc("listings", 1)
		if len(got) > 0 {
			rc.Stats.Inc("nonempty_listings", 1)
		}
	}
	if len(desc) > 12 {
		desc = desc[:12]
	}
	rc.Sample = map[string]any{"permissions": w.rt.String(), "events": desc}
}

func keysOf(m map[string][]byte) []string {
	out := make([]string, 0, len(m))
	for k := range m {
		out = append(out, k)
	}
	sort.Strings(out)
	return out
}

func init() {
	propRunners["C07"] = runPerm
	propRunners["C18"] = runList
}
