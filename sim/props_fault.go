package sim

import (
	"context"
	"fmt"
	badger "github.com/dgraph-io/badger/v2"
	"strconv"
	"strings"
	"testing"

	"github.com/attestantio/dirk/core"
	"github.com/attestantio/dirk/services/checker"
)

type fcase struct {
	Site string
	Kind string
	Size int
	Pos  int
}

func (f fcase) String() string {
	return fmt.Sprintf("%s/%s/n=%d/pos=%d", f.Site, f.Kind, f.Size, f.Pos)
}

var faultSites = []string{
	"lookup", "check", "isunlocked-error", "locked-unlock-error", "locked-no-passphrase", "sealed-account",
	// an account the operator unlocked through the account manager and locked again, on an instance configured with no
	// account passphrases: locked, and nothing the instance knows opens it.  (Not a site: the same with *other* passphrases
	// configured - the wallet libraries keep the decrypted key after the first unlock and accept any passphrase afterwards, so
	// there the unlock step succeeds and the property has nothing to say.)
	"relocked-account-no-passphrases",
	"rules-unknown", "rules-failed", "rules-denied", "rules-short", "rules-empty",
	// the ruler itself answers with no verdicts at all (the endpoints that expect exactly one index the list)
	"ruler-empty",
	"store-fetch-error", "store-write-error", "store-write-error-behind-refused-entry", "record-wrong-length", "record-undecodable", "record-empty", "record-one-byte", "store-closed",
	"sign-error", "domain-31-bytes", "domain-33-bytes", "data-31-bytes",
	// every entry from the position to the end of the batch carries the same unusable input
	"domain-31-bytes-run", "data-31-bytes-run",
	// an attestation request that lacks a part, or is absent from the list, at the position
	"entry-no-target", "entry-no-source", "entry-no-data", "entry-no-id", "entry-nil",
	// two wrong lengths that add up to the right total
	"data-31-domain-33-bytes", "data-28-domain-36-bytes", "data-33-domain-31-bytes",
}

func siteApplies(site, kind string, size int) bool {
	slashable := kind == "att" || kind == "atts" || kind == "prop"
	switch site {
	case "store-fetch-error", "store-write-error", "record-wrong-length", "record-undecodable", "record-empty", "record-one-byte", "store-closed":
		return slashable
	case "rules-short", "rules-empty", "store-write-error-behind-refused-entry":
		return kind == "atts" && size >= 2
	case "data-31-bytes":
		return kind == "gen" || kind == "multi"
	case "data-31-domain-33-bytes", "data-28-domain-36-bytes", "data-33-domain-31-bytes":
		return kind == "gen" || kind == "multi"
	case "entry-no-target", "entry-no-source", "entry-no-data", "entry-no-id":
		return kind == "att" || kind == "atts"
	case "entry-nil":
		return kind == "atts"
	case "data-31-bytes-run":
		return kind == "multi" && size >= 3
	case "domain-31-bytes-run":
		return (kind == "multi" || kind == "atts") && size >= 3
	}
	return true
}

// faultMatrix enumerates the complete single-fault matrix: site x request kind x batch size x position.
func faultMatrix() []fcase {
	var out []fcase
	for _, site := range faultSites {
		for _, kind := range []string{"att", "prop", "gen", "atts", "multi"} {
			sizes := []int{1}
			if kind == "atts" || kind == "multi" {
				sizes = []int{1, 2, 3, 5, 17}
			}
			for _, n := range sizes {
				if !siteApplies(site, kind, n) {
					continue
				}
				for pos := 0; pos < n; pos++ {
					out = append(out, fcase{site, kind, n, pos})
				}
			}
		}
	}
	return out
}

func storeKey(pub []byte, action byte) []byte {
	k := make([]byte, 49)
	copy(k, pub)
	k[48] = action
	return k
}

// buildOp makes a well-formed, authorised request of the given kind and size over accounts 0..n-1
// (position pos optionally replaced by the sealed account).
func buildFaultOp(pop *Population, kind string, n, pos int, sealed bool, uniq *uint64) *Op {
	o := &Op{Kind: kind, Client: "client1"}
	for i := 0; i < n; i++ {
		*uniq++
		acct := i
		if sealed && i == pos {
			acct = pop.ByPath("Wallet 2/Sealed").idx
		}
		var e Entry
		switch kind {
		case "att", "atts":
			e = AttEntry(acct, 1, 2, *uniq)
		case "prop":
			e = PropEntry(acct, 5, *uniq)
		default:
			e = GenEntry(acct, MkDomain([4]byte{7, 0, 0, 0}, *uniq), *uniq)
		}
		e.ByKey = i%2 == 1
		o.Entries = append(o.Entries, e)
	}
	return o
}

func runFaultMatrix(t *testing.T, rc *RunCtx) {
	worker, _ := strconv.Atoi(rc.Param("mw", "0"))
	workers, _ := strconv.Atoi(rc.Param("mW", "1"))
	base, _ := strconv.ParseUint(rc.Param("_seed_base", "0"), 10, 64)
	idx := int(rc.Seed-base)*workers + worker
	m := faultMatrix()
	if idx >= len(m) {
		rc.Stats.Inc("matrix_padding_runs", 1)
		return
	}
	fc := m[idx]
	if idx == 0 {
		rc.Stats.Inc("matrix_total", int64(len(m)))
	}
	rc.Stats.Inc("matrix_cases", 1)
	rc.Stats.Seen("cases", fc.String())
	rc.Sample = map[string]any{"matrix_case": fc.String(), "matrix_size": len(m)}
	plan := NewFaultPlan()
	var w *concWorld
	if strings.HasPrefix(fc.Site, "relocked-") {
		w = newW1Cfg(t, rc, SchedCfg{MaxSteps: 1 << 20}, StdPopulation(t), InstCfg{Plan: plan, AccountManager: true, NoAccountPassphrases: fc.Site == "relocked-account-no-passphrases"})
	} else {
		w = newW1(t, rc, SchedCfg{MaxSteps: 1 << 20}, plan)
	}
	defer w.close()
	pop := w.pop
	uniq := uint64(0)
	o := buildFaultOp(pop, fc.Kind, fc.Size, fc.Pos, fc.Site == "sealed-account", &uniq)
	e := &o.Entries[fc.Pos]
	kn := pop.Accts[e.Acct].KName
	whole := false
	runFrom := -1
	action := byte(2)
	if fc.Kind == "prop" {
		action = 3
	}
	switch fc.Site {
	case "lookup":
		plan.Set("lookup", kn, "error")
	case "check":
		plan.Set("check", kn, "refuse")
	case "isunlocked-error":
		plan.Set("isunlocked", kn, "error")
	case "locked-unlock-error":
		plan.Set("isunlocked", kn, "locked")
		plan.Set("unlock", kn, "error")
	case "locked-no-passphrase":
		plan.Set("isunlocked", kn, "locked")
		plan.Set("unlock", kn, "nopass")
	case "sealed-account":
	case "relocked-account-no-passphrases":
		// The operator opens every account of the request with its passphrase, then locks the one at the position again.
		creds := &checker.Credentials{RequestID: "operator", Client: "client1", IP: "10.0.0.1"}
		w.s.Direct(func() {
			for i := range o.Entries {
				a := pop.Accts[o.Entries[i].Acct]
				pass := []byte("pass")
				if a.Locked {
					pass = []byte("a passphrase nobody configured")
				}
				if res, err := w.inst.AcctMgr.Unlock(context.Background(), creds, a.Path, pass); err != nil || res != core.ResultSucceeded {
					t.Fatalf("%s: unlocking %s: %v %v", fc, a.Path, res, err)
				}
			}
			if res, err := w.inst.AcctMgr.Lock(context.Background(), creds, pop.Accts[e.Acct].Path); err != nil || res != core.ResultSucceeded {
				t.Fatalf("%s: locking %s: %v %v", fc, pop.Accts[e.Acct].Path, res, err)
			}
		})
	case "rules-unknown", "rules-failed", "rules-denied":
		plan.Set("rules", kn, fc.Site[6:])
	case "ruler-empty":
		plan.Set("ruler", kn, "empty")
		whole = true
	case "rules-short":
		plan.Set("rules", kn, "short")
		e = &o.Entries[len(o.Entries)-1]
	case "rules-empty":
		plan.Set("rules", kn, "empty")
		whole = true
	case "store-fetch-error":
		plan.Set("store-fetch", kn, "error") // only this key's record cannot be read
	case "store-write-error":
		plan.Set("store-write", kn, "error")
		plan.Set("store-write", "", "error") // batch store has no key
		whole = fc.Kind == "atts" && fc.Size > 1
	case "store-write-error-behind-refused-entry":
		// Another position of the batch is refused by the rules (target not above source); the write of the
		// remaining, approvable positions then fails: nobody may be signed.
		other := (fc.Pos + 1) % len(o.Entries)
		if fc.Pos > 0 {
			other = 0
		}
		o.Entries[other].Src, o.Entries[other].Tgt = 5, 3
		plan.Set("store-write", "", "error")
		whole = true
	case "record-wrong-length":
		w.s.Direct(func() {
			_ = w.inst.Rules.VerifStore().Store(context.Background(), storeKey(pop.Accts[e.Acct].PubKey, action), []byte{0x01, 1, 2, 3})
		})
	case "record-undecodable":
		w.s.Direct(func() {
			_ = w.inst.Rules.VerifStore().Store(context.Background(), storeKey(pop.Accts[e.Acct].PubKey, action), []byte{0x7f, 0xff, 0x81, 0x03, 0x01, 0x01})
		})
	case "record-empty", "record-one-byte":
		// A record that is present but holds nothing (or a lone version byte): written behind the store's own
		// checks, as a truncation would leave it.
		val := []byte{}
		if fc.Site == "record-one-byte" {
			val = []byte{0x01}
		}
		w.s.Direct(func() {
			_ = w.inst.Rules.VerifStore().VerifDB().Update(func(txn *badger.Txn) error {
				return txn.Set(storeKey(pop.Accts[e.Acct].PubKey, action), val)
			})
		})
	case "store-closed":
		w.s.Direct(func() { _ = w.inst.Rules.Close(context.Background()) })
		w.inst.Closed = true
		whole = true
	case "sign-error":
		plan.Set("sign", kn, "error")
	case "entry-no-target", "entry-no-source", "entry-no-data", "entry-no-id", "entry-nil":
		e.Malformed = strings.TrimPrefix(fc.Site, "entry-")
	case "domain-31-bytes":
		e.Domain = e.Domain[:31]
	case "domain-33-bytes":
		e.Domain = append(append([]byte{}, e.Domain...), 0x55)
	case "data-31-bytes":
		e.Data = e.Data[:31]
	case "data-31-domain-33-bytes":
		e.Data, e.Domain = e.Data[:31], append(append([]byte{}, e.Domain...), 0x55)
	case "data-28-domain-36-bytes":
		// four harmless bytes followed by a complete attester domain
		e.Data, e.Domain = e.Data[:28], append([]byte{7, 0, 0, 0}, MkDomain(DomAttester, 9)...)
	case "data-33-domain-31-bytes":
		e.Data, e.Domain = append(append([]byte{}, e.Data...), 0x01), e.Domain[:31]
	case "data-31-bytes-run", "domain-31-bytes-run":
		for i := fc.Pos; i < len(o.Entries); i++ {
			if fc.Site == "data-31-bytes-run" {
				o.Entries[i].Data = e.Data[:31]
				o.Entries[i].Domain = e.Domain
			} else {
				o.Entries[i].Domain = e.Domain[:31]
				if o.Kind == "multi" {
					o.Entries[i].Data = e.Data
				}
			}
		}
		runFrom = fc.Pos
	}
	// Store faults are injected by the scheduler at the storage yield points.
	w.s.cfg.Fault = func(s *Sched, p *Park) Resume {
		if p.Kind != KPoint {
			return Resume{}
		}
		site := "store-fetch"
		if p.Label != "fetch" {
			site = "store-write"
		}
		if plan.Take(site, p.Key, false) != "" {
			return Resume{Err: ErrInjected, Fault: site}
		}
		return Resume{}
	}
	w.submit([]*Op{o})
	out := w.s.Run()
	if out != "done" {
		rc.Stats.Inc("outcome_"+out, 1)
		return
	}
	tk := w.tasks[0]
	if tk.Panic != nil {
		rc.Violate("C06", "panic-under-fault", fmt.Sprintf("%s: %v", fc, tk.Panic), w.s.Step)
		return
	}
	r := w.res[0]
	if r != nil && r.Panic != "" && fc.Site == "ruler-empty" && (fc.Kind == "att" || fc.Kind == "prop" || fc.Kind == "gen") {
		// The endpoints that expect one verdict index an empty list: the request dies in a panic, nothing is released (the real
		// ruler never answers with an empty list; C06 asks for no signature, which a panic delivers).
		rc.Stats.Inc("matrix_empty_result_list_ended_in_a_panic_without_signature", 1)
		return
	}
	if r != nil && r.Panic != "" {
		// the request ended in a panic on the handler's goroutine: with no recovery in the gRPC server that is the
		// daemon's death, under a fault that a daemon is meant to answer with "no"
		rc.Violate("C06", "panic-under-fault", fmt.Sprintf("%s: %s", fc, truncate(r.Panic, 600)), w.s.Step)
		return
	}
	rc.Logf("%s: %s -> %v", fc, o, r.States)
	// With a non-32-byte domain there is no defined signing root: M2 is not applicable, M3 is.
	Monitor(rc, w.ledger, pop, o, r, w.s.Step, false)
	for k := range plan.Fired {
		rc.Stats.Inc("fault_"+k, int64(plan.Fired[k]))
	}
	check := func(i int) {
		if r.OK(i) || (i < len(r.Sigs) && len(r.Sigs[i]) > 0) {
			rc.Violate("C06", "signature-despite-fault", fmt.Sprintf("%s: position %d came back %v with a signature although its path met the fault", fc, i, r.States[i]), w.s.Step)
		}
	}
	if whole {
		for i := range o.Entries {
			check(i)
		}
	} else if runFrom >= 0 {
		for i := runFrom; i < len(o.Entries); i++ {
			check(i)
		}
	} else if fc.Site == "rules-short" {
		check(len(o.Entries) - 1)
	} else {
		check(fc.Pos)
	}
	// Reach: the planned fault must actually have fired (except input-shaped faults).
	switch fc.Site {
	case "sealed-account", "relocked-account-no-passphrases", "entry-no-target", "entry-no-source", "entry-no-data", "entry-no-id", "entry-nil", "record-wrong-length", "record-undecodable", "record-empty", "record-one-byte", "store-closed", "domain-31-bytes", "domain-33-bytes", "data-31-bytes", "domain-31-bytes-run", "data-31-bytes-run",
		"data-31-domain-33-bytes", "data-28-domain-36-bytes", "data-33-domain-31-bytes":
		rc.Stats.Inc("fault_input:"+fc.Site, 1)
	default:
		if len(plan.Fired) == 0 {
			rc.Stats.Inc("matrix_fault_not_reached", 1)
			rc.Logf("fault of %s never fired", fc)
		}
	}
}

// runFaults is the body of C06: the single-fault matrix (mode=matrix) or random multi-fault
// sequences under concurrent load.
func runFaults(t *testing.T, rc *RunCtx) {
	if rc.Param("mode", "") == "matrix" {
		runFaultMatrix(t, rc)
		return
	}
	ch := rc.Ch
	if ch.Pick(10, 0) == 9 {
		runFaultBulk(t, rc)
		return
	}
	plan := NewFaultPlan()
	nKeys := 1 + ch.Pick(4, 0)
	nOps := 2 + ch.Pick(5, 0)
	rateDen := []int{4, 8, 16}[ch.Pick(3, 0)]
	closeAt := -1
	if ch.Pick(4, 0) == 3 {
		closeAt = 1 + ch.Pick(30, 0)
	}
	touched := map[int]map[string]bool{}
	touch := func(task int, key string) {
		if touched[task] == nil {
			touched[task] = map[string]bool{}
		}
		touched[task][key] = true
	}
	closedStep := -1
	cfg := SchedCfg{StayBias: []float64{0, 0.5, 0.85}[ch.Pick(3, 0)], MaxSteps: 4000}
	var w *concWorld
	cfg.Fault = func(s *Sched, p *Park) Resume {
		switch p.Kind {
		case KPoint:
			if ch.Chance(1, rateDen) {
				k := p.Key
				if k == "" {
					k = "*"
				}
				site := "store-" + p.Label
				plan.Touch(site, "error", k)
				touch(p.Task.ID, k) // a failed read touches that key only; a failed batch write (no key) touches every position
				return Resume{Err: ErrInjected, Fault: site}
			}
		case KRulesPre:
			if ch.Chance(1, 2*rateDen) {
				kind := []string{"unknown", "failed", "denied"}[ch.Pick(3, 0)]
				plan.Touch("rules", kind, p.Key)
				if p.Label == "atts" {
					touch(p.Task.ID, "*")
				} else {
					touch(p.Task.ID, p.Key)
				}
				return Resume{Fault: kind}
			}
		case KSign:
			if ch.Chance(1, 2*rateDen) {
				plan.Touch("sign", "error", p.Key)
				touch(p.Task.ID, p.Key)
				return Resume{Err: ErrInjected, Fault: "sign"}
			}
		}
		return Resume{}
	}
	cfg.PreStep = func(s *Sched, parked []*Park) bool {
		if closeAt >= 0 && s.Step >= closeAt && closedStep < 0 {
			_ = w.inst.Rules.Close(context.Background())
			w.inst.Closed = true
			closedStep = s.Step
			rc.Stats.Inc("fault_store-closed-under-load", 1)
			rc.Logf("s%d store closed under load", s.Step)
		}
		return false
	}
	w = newW1(t, rc, cfg, plan)
	defer w.close()
	// In a third of the runs the keys are like-named accounts of two wallets (Wallet 1/Account 0,
	// Wallet 2/Account 0, ...): what was decided for one must not be taken for the other.
	keyMap := []int{0, 1, 2, 3}
	if ch.Pick(3, 0) == 2 {
		for i := range keyMap {
			wallet := []string{"Wallet 1", "Wallet 2"}[i%2]
			path := fmt.Sprintf("%s/Account %d", wallet, i/2)
			for j, a := range w.pop.Accts {
				if a.Path == path {
					keyMap[i] = j
				}
			}
		}
		rc.Stats.Inc("runs_over_like_named_accounts_of_two_wallets", 1)
	}
	// Pre-drawn faults at the sites that have no yield point.
	for k := 0; k < nKeys; k++ {
		kn := w.pop.Accts[keyMap[k]].KName
		switch ch.Pick(12, 0) {
		case 1:
			plan.Set("lookup", kn, "error")
		case 2:
			plan.Set("check", kn, "refuse")
		case 3:
			plan.Set("isunlocked", kn, "error")
		case 4:
			plan.Set("isunlocked", kn, "locked")
			plan.Set("unlock", kn, []string{"error", "nopass"}[ch.Pick(2, 0)])
		}
	}
	ops := genConcOps(rc, nKeys, nOps, true)
	// Some generic requests too.
	for i := range ops {
		if ch.Pick(6, 0) == 5 {
			ops[i] = &Op{Kind: "multi", Client: "client1", Entries: []Entry{GenEntry(ch.Pick(nKeys, 0), MkDomain([4]byte{9, 0, 0, 0}, 1), uint64(1000+i)), GenEntry(ch.Pick(nKeys, 0), MkDomain([4]byte{9, 0, 0, 0}, 2), uint64(2000+i))}}
		}
	}
	for _, o := range ops {
		for j := range o.Entries {
			if a := o.Entries[j].Acct; a >= 0 && a < len(keyMap) {
				o.Entries[j].Acct = keyMap[a]
			}
		}
	}
	w.submit(ops)
	out := w.s.Run()
	rc.Stats.Inc("outcome_"+out, 1)
	if out == "truncated" {
		return
	}
	for k, n := range plan.Fired {
		rc.Stats.Inc("fault_"+k, int64(n))
	}
	nf := 0
	for i, tk := range w.tasks {
		if tk.Panic != nil {
			rc.Violate("C06", "panic-under-fault", fmt.Sprintf("%s: %v", w.ops[i], tk.Panic), tk.ReturnStep)
			continue
		}
		if !tk.Completed || w.res[i] == nil {
			continue
		}
		o, r := w.ops[i], w.res[i]
		if r.Panic != "" && len(touched[tk.ID]) > 0 {
			rc.Violate("C06", "panic-under-fault", fmt.Sprintf("%s: %s", o, truncate(r.Panic, 600)), tk.ReturnStep)
			continue
		}
		rc.Logf("t%d %s -> %v touched=%v", tk.ID, o, r.States, touched[tk.ID])
		Monitor(rc, w.ledger, w.pop, o, r, tk.ReturnStep, false)
		slashable := o.Kind == "att" || o.Kind == "atts" || o.Kind == "prop"
		for j := range o.Entries {
			if !r.OK(j) {
				continue
			}
			e := &o.Entries[j]
			kn := ""
			if e.Acct >= 0 {
				kn = w.pop.Accts[e.Acct].KName
			}
			tt := touched[tk.ID]
			if tt["*"] || tt[kn] || plan.plan["lookup|"+kn] != "" || plan.plan["check|"+kn] != "" || plan.plan["unlock|"+kn] != "" || plan.plan["isunlocked|"+kn] == "error" {
				rc.Violate("C06", "signature-despite-fault", fmt.Sprintf("%s position %d signed although a step on its path was made to fail (touched=%v)", o, j, tt), tk.ReturnStep)
			}
			if slashable && closedStep >= 0 && tk.InvokeStep > closedStep {
				rc.Violate("C06", "signature-after-store-closed", fmt.Sprintf("%s position %d signed although the slashing-protection store had been closed before the request arrived", o, j), tk.ReturnStep)
			}
		}
		if len(touched[tk.ID]) > 0 {
			nf++
		}
	}
	if nf > 0 {
		rc.Stats.Seen("cases", w.s.ScheduleSignature())
		rc.Stats.Inc("probe_requests_meeting_a_fault", int64(nf))
	}
	// The store was closed with requests in flight (some had read their record and not yet written it): whatever was
	// signed all the same must be in the store when it is opened again; a signature without its record means the
	// failed write was passed over.
	if closedStep >= 0 && len(rc.Viol) == 0 && w.ledger.N > 0 {
		w.s.Direct(func() {
			w.inst.Close()
			ni, err := NewInstance(w.s, "reopened", w.inst.Cfg)
			if err != nil {
				rc.Violate("HARNESS", "reopen-after-close-failed", err.Error(), w.s.Step)
				return
			}
			w.inst = ni
			if ex, err := ni.Export(); err == nil {
				ledgerCoveredAs(rc, "C06", "signature-without-record-after-store-closed", w.ledger, ex, "store reopened after it was closed under load", w.s.Step)
				rc.Stats.Inc("probe_reopened_after_close_under_load", 1)
			}
		})
	}
	desc := make([]string, len(ops))
	for i, o := range ops {
		desc[i] = o.String()
	}
	rc.Sample = map[string]any{"keys": nKeys, "ops": desc, "fault_rate": fmt.Sprintf("1/%d", rateDen), "close_store_at_step": closeAt, "faults_fired": plan.Fired}
}

// runFaultBulk: one attestation batch over 130-300 keys of the large wallet; the k-th batch write of the request
// fails (k drawn from 1..3; an implementation that writes a large batch in one go has only the first).  Whatever
// was signed must have been recorded: a position that carries a signature although the store does not cover its
// epochs afterwards was signed despite the failed write.
func runFaultBulk(t *testing.T, rc *RunCtx) {
	ch := rc.Ch
	pop := BigPopulation(t)
	failAt := 1 + ch.Pick(3, 0)
	seen := 0
	cfg := SchedCfg{StayBias: 0.8, MaxSteps: 20000}
	cfg.Fault = func(s *Sched, p *Park) Resume {
		if p.Kind == KPoint && p.Label == "batchstore" {
			seen++
			if seen == failAt {
				rc.Stats.Inc("fault_store-write-in-bulk-batch", 1)
				return Resume{Err: ErrInjected, Fault: "store-write"}
			}
		}
		return Resume{}
	}
	w := newW1Pop(t, rc, cfg, nil, pop)
	defer w.close()
	size := 130 + ch.Pick(171, 0)
	start := ch.Pick(len(pop.Accts)-size, 0)
	o := &Op{Kind: "atts", Client: "client1"}
	for i := 0; i < size; i++ {
		o.Entries = append(o.Entries, AttEntry(start+i, 1, 2, uint64(100+i)))
	}
	w.submit([]*Op{o})
	out := w.s.Run()
	rc.Stats.Inc("outcome_"+out, 1)
	rc.Stats.Inc("bulk_fault_runs", 1)
	rc.Stats.Seen("cases", fmt.Sprintf("bulkfault/%d/%d/%d", size, failAt, start%7))
	rc.Sample = map[string]any{"bulk_batch": size, "failing_batch_write": failAt, "batch_writes_seen": seen}
	if out != "done" || w.res[0] == nil {
		return
	}
	r := w.res[0]
	Monitor(rc, w.ledger, pop, o, r, w.s.Step, false)
	var export map[string]Watermark
	var err error
	w.s.Direct(func() { export, err = w.inst.Export() })
	if err != nil {
		return
	}
	for i := range o.Entries {
		if !r.OK(i) {
			continue
		}
		wm, ok := export[pop.Accts[o.Entries[i].Acct].KName]
		if !ok || wm.Tgt < int64(o.Entries[i].Tgt) {
			rc.Violate("C06", "signature-despite-fault", fmt.Sprintf("batch of %d, batch write %d of the request failed: position %d carries a signature although its record was not written (store says %v)", size, failAt, i, wm), w.s.Step)
			return
		}
	}
}

func init() {
	propRunners["C06"] = runFaults
}
