package sim

import (
	"context"
	"fmt"
	"net"
	"strings"
	"sync"
	"testing"
	"time"

	"github.com/attestantio/dirk/core"
	grpcapi "github.com/attestantio/dirk/services/api/grpc"
	"github.com/attestantio/dirk/services/process"
	"github.com/attestantio/dirk/testing/resources"
	"github.com/herumi/bls-eth-go-binary/bls"
	pb "github.com/wealdtech/eth2-signer-api/pb/v1"
	"google.golang.org/grpc/resolver"
)

// W8: a cluster whose instances talk to each other the way deployed instances do - through Dirk's own sender
// (services/sender/grpc: connection pool, TLS with the instance's signer certificate, whatever call options it sets) into
// each other's real gRPC edge (TLS, interceptors, receiver handlers).  Everywhere else the sender is replaced by the
// simulated transport, which is what makes faults addressable and schedules repeatable; here nothing is replaced, and
// the only faults are failing calls of the receiving instance's process service (a wrapper around the real one).
// The peers are named like the repository's signer certificates; a resolver registered for this process maps those
// names to the loopback address (there is no name service in the sandbox).

type loopbackBuilder struct{}

func (loopbackBuilder) Scheme() string { return "dns" }

func (loopbackBuilder) Build(target resolver.Target, cc resolver.ClientConn, _ resolver.BuildOptions) (resolver.Resolver, error) {
	ep := target.Endpoint()
	host, port, err := net.SplitHostPort(ep)
	if err != nil {
		return nil, err
	}
	if net.ParseIP(host) == nil {
		host = "127.0.0.1"
	}
	if err := cc.UpdateState(resolver.State{Addresses: []resolver.Address{{Addr: net.JoinHostPort(host, port)}}}); err != nil {
		return nil, err
	}
	return nopResolver{}, nil
}

type nopResolver struct{}

func (nopResolver) ResolveNow(resolver.ResolveNowOptions) {}
func (nopResolver) Close()                                {}

var loopbackOnce sync.Once

// faultProcess wraps an instance's process service: planned calls fail once.
type faultProcess struct {
	process.Service
	mu    sync.Mutex
	id    uint64
	c     *Cluster
	stray []string          // shares that arrived here although they were computed for somebody else
	plan  map[string]string // "prepare" | "execute" | "contribute" -> "error-reply" (carried out, then answered with an error) | "refused" (not carried out)
	fired map[string]int
}

func (f *faultProcess) take(kind string) string {
	f.mu.Lock()
	defer f.mu.Unlock()
	k := f.plan[kind]
	if k != "" {
		delete(f.plan, kind)
		f.fired[kind+":"+k]++
	}
	return k
}

var errInjectedRemote = fmt.Errorf("injected failure at the receiving instance")

func (f *faultProcess) OnPrepare(ctx context.Context, sender uint64, account string, passphrase []byte, threshold uint32, participants []*core.Endpoint) error {
	switch f.take("prepare") {
	case "refused":
		return errInjectedRemote
	case "error-reply":
		_ = f.Service.OnPrepare(ctx, sender, account, passphrase, threshold, participants)
		return errInjectedRemote
	}
	return f.Service.OnPrepare(ctx, sender, account, passphrase, threshold, participants)
}

func (f *faultProcess) OnExecute(ctx context.Context, sender uint64, account string) error {
	switch f.take("execute") {
	case "refused":
		return errInjectedRemote
	case "error-reply":
		_ = f.Service.OnExecute(ctx, sender, account)
		return errInjectedRemote
	}
	return f.Service.OnExecute(ctx, sender, account)
}

func (f *faultProcess) OnContribute(ctx context.Context, sender uint64, account string, secret bls.SecretKey, vVec []bls.PublicKey) (bls.SecretKey, []bls.PublicKey, error) {
	if f.c != nil {
		if to := f.c.shareMeantFor(secret.Serialize()); to != 0 && to != f.id {
			f.mu.Lock()
			f.stray = append(f.stray, fmt.Sprintf("the share participant %d computed for participant %d (account %q) was delivered to participant %d", sender, to, account, f.id))
			f.mu.Unlock()
		}
	}
	switch k := f.take("contribute"); k {
	case "refused":
		return bls.SecretKey{}, nil, errInjectedRemote
	case "error-reply":
		_, _, _ = f.Service.OnContribute(ctx, sender, account, secret, vVec)
		return bls.SecretKey{}, nil, errInjectedRemote
	case "":
	default:
		// a dishonest (or broken) participant: the request is carried out, the reply is altered on its way back
		sec, vv, err := f.Service.OnContribute(ctx, sender, account, secret, vVec)
		if err != nil {
			return sec, vv, err
		}
		raw := make([][]byte, len(vv))
		for i := range vv {
			raw[i] = vv[i].Serialize()
		}
		s2, v2 := (&Transport{}).tamperContribution(strings.TrimPrefix(k, "reply:"), 0, sender, account, sec.Serialize(), raw)
		var outSec bls.SecretKey
		if err := outSec.Deserialize(s2); err != nil {
			panic(err)
		}
		outVec := make([]bls.PublicKey, len(v2))
		for i := range v2 {
			if err := outVec[i].Deserialize(v2[i]); err != nil {
				panic(err)
			}
		}
		return outSec, outVec, nil
	}
	return f.Service.OnContribute(ctx, sender, account, secret, vVec)
}

type realNet struct {
	c      *Cluster
	faults []*faultProcess
}

// newRealNet builds n (<= 5) instances named signer-test01.. with real edges and the real sender.
func newRealNet(t *testing.T, rc *RunCtx, n int) *realNet {
	loopbackOnce.Do(func() { resolver.Register(loopbackBuilder{}) })
	ids := make([]uint64, n)
	ports := make([]int, n)
	for i := range ids {
		ids[i] = uint64(i + 1)
		ports[i] = freePort()
	}
	s := NewSched(rc, SchedCfg{})
	c := NewCluster(t, rc, s, ClusterCfg{IDs: ids, Order: ids, NameFmt: "signer-test%02d", RealSender: true, Ports: ports, Timeout: 20 * time.Second,
		Perms: FullPermissions("client1", "client2")})
	rn := &realNet{c: c}
	for i, nd := range c.Nodes {
		fp := &faultProcess{Service: nd.Inst.Process, id: nd.ID, c: c, plan: map[string]string{}, fired: map[string]int{}}
		rn.faults = append(rn.faults, fp)
		var err error
		for attempt := 0; attempt < 4; attempt++ {
			_, err = grpcapi.New(context.Background(),
				grpcapi.WithSigner(nd.Inst.Signer), grpcapi.WithLister(nd.Inst.Lister), grpcapi.WithProcess(fp),
				grpcapi.WithAccountManager(nd.Inst.AcctMgr), grpcapi.WithWalletManager(nd.Inst.WalletMgr), grpcapi.WithPeers(nd.Peers),
				grpcapi.WithName(nd.Name), grpcapi.WithID(nd.ID),
				grpcapi.WithServerCert(resources.SignerCerts[nd.ID]), grpcapi.WithServerKey(resources.SignerKeys[nd.ID]), grpcapi.WithCACert(resources.CACrt),
				grpcapi.WithListenAddress(fmt.Sprintf("127.0.0.1:%d", ports[i])))
			if err == nil || !strings.Contains(err.Error(), "address already in use") {
				break
			}
		}
		if err != nil {
			// another process took the port between its selection and the listen: this run says nothing
			rc.Logf("edge of %s: %v", nd.Name, err)
			rc.Stats.Inc("realnet_edge_could_not_listen", 1)
			return nil
		}
	}
	return rn
}

// runRealNet is the body of the layers mode=realnet of C12 and C13.
func runRealNet(t *testing.T, rc *RunCtx, prop string) {
	InitBLS()
	ch := rc.Ch
	n := 2 + ch.Pick(3, 0)
	th := n/2 + 1 + ch.Pick(n-n/2, 0)
	rn := newRealNet(t, rc, n)
	if rn == nil {
		return
	}
	c := rn.c
	defer c.Close()
	defer c.S.Close()
	parts := c.Nodes
	initiator := parts[ch.Pick(n, 0)]
	path := fmt.Sprintf("Wallet 3/real %d", rc.Seed%100000)
	desc := fmt.Sprintf("n%d/t%d/initiator %s", n, th, initiator.Name)
	faulty := prop == "C13"
	if faulty {
		victim := ch.Pick(n, 0)
		kind := []string{"prepare", "execute", "contribute"}[ch.Pick(3, 0)]
		how := []string{"error-reply", "refused"}[ch.Pick(2, 0)]
		if kind == "contribute" {
			// contributions go from the lower to the higher identifier: the lowest never receives one
			victim = 1 + ch.Pick(n-1, 0)
			// ... and half of the contribution faults are an altered reply (the sender's own handling of what comes back)
			if ch.Pick(2, 0) == 1 {
				tampers := []string{"share-replaced", "commitment-altered", "commitment0-altered", "vvec-short", "vvec-long", "vvec-short-consistent", "vvec-long-consistent", "vvec-empty"}
				how = "reply:" + tampers[ch.Pick(len(tampers), 0)]
			}
		}
		rn.faults[victim].plan[kind] = how
		desc += fmt.Sprintf("/%s at %s fails once (%s)", kind, parts[victim].Name, how)
	}
	gen := func(p string) *dkgOutcome {
		out := &dkgOutcome{}
		ctx, cancel := context.WithTimeout(initiator.Inst.ClientCtx("client1", ""), 60*time.Second)
		defer cancel()
		res, err := initiator.Inst.AcctH.Generate(ctx, &pb.GenerateRequest{Account: p, Passphrase: []byte("pass"), SigningThreshold: uint32(th), Participants: uint32(n)})
		out.Done = true
		if err != nil {
			out.State, out.Message = pb.ResponseState_FAILED, err.Error()
			return out
		}
		out.State, out.PubKey, out.Participants, out.Message = res.GetState(), res.GetPublicKey(), res.GetParticipants(), res.GetMessage()
		return out
	}
	if prop == "C16" {
		// Share ownership over the real sender: two to four generations (other names, drawn initiators) at once, twice over so
		// that the second wave meets connections the first one left behind.  Whatever else happens, a share arrives where it
		// was meant to go.
		total, ok := 0, 0
		for wave := 0; wave < 2; wave++ {
			k := 2 + ch.Pick(3, 0)
			outs := make([]*dkgOutcome, k)
			var wg sync.WaitGroup
			for g := 0; g < k; g++ {
				g := g
				from := parts[ch.Pick(n, 0)]
				p := fmt.Sprintf("%s w%d g%d", path, wave, g)
				wg.Add(1)
				go func() {
					defer wg.Done()
					ctx, cancel := context.WithTimeout(from.Inst.ClientCtx("client1", ""), 60*time.Second)
					defer cancel()
					o := &dkgOutcome{Done: true}
					res, err := from.Inst.AcctH.Generate(ctx, &pb.GenerateRequest{Account: p, Passphrase: []byte("pass"), SigningThreshold: uint32(th), Participants: uint32(n)})
					if err != nil {
						o.State, o.Message = pb.ResponseState_FAILED, err.Error()
					} else {
						o.State, o.Message = res.GetState(), res.GetMessage()
					}
					outs[g] = o
				}()
			}
			wg.Wait()
			for _, o := range outs {
				total++
				if o.State == pb.ResponseState_SUCCEEDED {
					ok++
				} else {
					rc.Logf("concurrent generation: %v %q", o.State, o.Message)
				}
			}
		}
		rc.Stats.Seen("cases", "realnet-ownership/"+desc)
		rc.Stats.Inc("realnet_concurrent_generations", int64(total))
		rc.Stats.Inc("realnet_concurrent_generations_succeeded", int64(ok))
		rc.Sample = map[string]any{"layer": "concurrent generations over Dirk's own sender and gRPC edges", "case": desc, "generations": total, "succeeded": ok}
		for _, f := range rn.faults {
			f.mu.Lock()
			for _, x := range f.stray {
				rc.Violate("C16", "share-of-another-participant", "over the real sender, with generations running at the same time: "+x, 0)
			}
			f.mu.Unlock()
		}
		rc.Stats.Inc("share_deliveries_checked_over_the_real_sender", int64(len(c.sentShares)))
		return
	}
	out := gen(path)
	rc.Logf("%s -> %v %q", desc, out.State, out.Message)
	rc.Stats.Seen("cases", "realnet/"+desc)
	rc.Stats.Inc("realnet_generations", 1)
	rc.Sample = map[string]any{"layer": "instances connected by Dirk's own sender and gRPC edges", "case": desc, "state": out.State.String()}
	fired := 0
	for _, f := range rn.faults {
		for k, v := range f.fired {
			rc.Stats.Inc("fault_realnet_"+k, int64(v))
			fired += v
		}
	}
	if !faulty {
		if out.State != pb.ResponseState_SUCCEEDED {
			rc.Violate("HARNESS", "vacuous-fault-free-generation-failed", desc+": "+out.Message, 0)
			return
		}
		c.checkGenerated("C12", path, uint32(th), parts, out, 0)
		rc.Stats.Inc("successful_generations", 1)
		return
	}
	if fired == 0 {
		rc.Stats.Inc("realnet_fault_not_reached", 1)
		return
	}
	if out.State == pb.ResponseState_SUCCEEDED {
		rc.Violate("C13", "generation-succeeded-despite-fault", fmt.Sprintf("%s: over the real sender the client was told the generation succeeded", desc), 0)
		return
	}
	c.noAccountAnywhere("C13", path, desc, 0)
	rc.Stats.Inc("failed_generations", 1)
	if len(rc.Viol) > 0 {
		return
	}
	// Once the fault is gone a generation under another name succeeds, consistently.
	out2 := gen(path + " again")
	if out2.State == pb.ResponseState_SUCCEEDED {
		c.checkGenerated("C13", path+" again", uint32(th), parts, out2, 1)
		rc.Stats.Inc("recovery_generations", 1)
	} else {
		rc.Stats.Inc("realnet_recovery_failed", 1)
		rc.Logf("recovery generation failed: %s", out2.Message)
	}
}

func init() {
	noBubble["C12:realnet"] = true
	noBubble["C13:realnet"] = true
	noBubble["C16:realnet"] = true
}
