package sim

import (
	"encoding/hex"

	pb "github.com/wealdtech/eth2-signer-api/pb/v1"

	"fmt"
	"os"
	"strconv"
	"testing"
)

// runChild is the body of a child process used by the crash layers of C03: a seeded sequential
// signing workload against a real instance on VERIF_CHILD_DIR, announcing every released signature
// on stdout (one unbuffered write per line, after the response has been obtained).  The process may be
// killed at its N-th storage point (VERIF_HOOK_KILL_AT, handled inside util/verifhook) or traced.
func runChild(t *testing.T) {
	InitBLS()
	dir := os.Getenv("VERIF_CHILD_DIR")
	seed, _ := strconv.ParseUint(os.Getenv("VERIF_CHILD_SEED"), 10, 64)
	nOps, _ := strconv.Atoi(os.Getenv("VERIF_CHILD_OPS"))
	if nOps == 0 {
		nOps = 8
	}
	rc := &RunCtx{Property: "C03", Tier: "quick", Seed: seed, Ch: NewSeedChoice(seed), Stats: NewStats(), Params: map[string]string{}}
	pop := StdPopulation(t)
	s := NewSched(rc, SchedCfg{})
	inst, err := NewInstance(s, "child", InstCfg{Dir: dir, Pop: pop, Permissions: FullPermissions("client1"), PeriodicPruning: os.Getenv("VERIF_CHILD_PRUNING") == "1"})
	if err != nil {
		fmt.Fprintf(os.Stderr, "child: open: %v\n", err)
		os.Exit(4)
	}
	ledger := NewLedger()
	g := &histGen{rc: rc, ledger: ledger, pop: pop, nKeys: 1 + rc.Ch.Pick(3, 0)}
	say := func(line string) { _, _ = os.Stdout.Write([]byte(line + "\n")) }
	// A later incarnation on the same directory is told what its predecessors released, so that its
	// workload continues the history instead of being refused throughout.
	if prior := os.Getenv("VERIF_CHILD_PRIOR"); prior != "" {
		b, _ := os.ReadFile(prior)
		rel, _ := parseReleased(string(b))
		for i, r := range rel {
			kn := pop.Accts[r.acct].KName
			if r.kind == "prop" {
				e := PropEntry(r.acct, r.a, uint64(1<<41)+uint64(i))
				ledger.AddProp(rc, kn, &e, -1, false)
			} else {
				e := AttEntry(r.acct, r.a, r.b, uint64(1<<41)+uint64(i))
				ledger.AddAtt(rc, kn, &e, -1)
			}
		}
	}
	say("START")
	for i := 0; i < nOps; i++ {
		var o *Op
		if rc.Ch.Pick(4, 0) == 3 {
			o = g.op("C02")
		} else {
			o = g.op("C01")
		}
		r := o.Exec(inst)
		for j := range r.States {
			if r.States[j] == pb.ResponseState_FAILED {
				say("IOFAIL")
				break
			}
		}
		for j := range o.Entries {
			if !r.OK(j) || o.Entries[j].Acct < 0 {
				continue
			}
			e := &o.Entries[j]
			kn := pop.Accts[e.Acct].KName
			if o.Kind == "prop" {
				ledger.AddProp(rc, kn, e, i, false)
				say(fmt.Sprintf("RELEASED prop %d %d 0 %s", e.Acct, e.PSlot, hex.EncodeToString(e.HeaderRoot())))
			} else {
				ledger.AddAtt(rc, kn, e, i)
				say(fmt.Sprintf("RELEASED att %d %d %d %s", e.Acct, e.Src, e.Tgt, hex.EncodeToString(e.AttDataRoot())))
			}
		}
	}
	say("DONE")
	// Exit without closing the store, as a killed dirk would.
	os.Exit(0)
}
