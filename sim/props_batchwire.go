package sim

import (
	"context"
	"fmt"
	"sync"
	"testing"
	"time"

	"github.com/attestantio/dirk/services/checker"
	pb "github.com/wealdtech/eth2-signer-api/pb/v1"
)

// C09 over the wire: batches of one to several hundred valid, advancing attestation duties are sent through the real
// gRPC edge (TLS, interceptors, the server's own transport settings) of an instance holding the large wallet, and the
// same duties for a second range of keys with the same history one at a time over the same connection.  Whatever
// stands between a client and the batch endpoint is part of "batches equal one-at-a-time".

var (
	wireBatchOnce sync.Once
	wireBatchSrv  *tlsServer
)

func runBatchWire(t *testing.T, rc *RunCtx) {
	InitBLS()
	ch := rc.Ch
	w := getTLSWorld(t, rc)
	pop := BigPopulation(t)
	wireBatchOnce.Do(func() {
		setupRC := &RunCtx{Property: "C09", Ch: NewSeedChoice(1), Stats: NewStats()}
		perms := map[string][]*checker.Permissions{"client-test01": {{Path: "Big(Shared|Batch)?", Operations: []string{"All"}}}}
		wireBatchSrv = w.startServerPop(t, setupRC, perms, pop)
	})
	srv := wireBatchSrv
	cc, err := w.dial(srv, "valid-client-test01")
	if err != nil {
		rc.Violate("HARNESS", "dial", err.Error(), 0)
		return
	}
	defer cc.Close()
	api := remoteSigner{cl: pb.NewSignerClient(cc), timeout: 60 * time.Second}
	sizes := []int{1, 2, 3, 16, 64, 128, 200, 256, 300, 384, 450, 512}
	half := len(pop.Accts) / 2
	n := sizes[ch.Pick(len(sizes), 0)]
	if ch.Pick(2, 0) == 1 {
		n = 1 + ch.Pick(len(pop.Accts)-12, 0)
	}
	// Batches of up to half the wallet are mirrored one at a time on the other half; larger ones are judged against the
	// reference alone (every entry is a valid, advancing duty of an authorised client for a distinct key).
	mirrored := n <= half-2
	start := 0
	if mirrored {
		start = ch.Pick(half-n, 0)
	} else {
		start = ch.Pick(len(pop.Accts)-n, 0)
	}
	// Epochs advance with every run of this process (the instance lives as long as the process).
	wireEpoch++
	src, tgt := wireEpoch*3, wireEpoch*3+1+uint64(ch.Pick(2, 0))
	byKey := ch.Pick(3, 0) == 1
	batch := &Op{Kind: "atts"}
	var singles []*Op
	for j := 0; j < n; j++ {
		e := AttEntry(start+j, src, tgt, wireEpoch*100000+uint64(j))
		e.ByKey = byKey
		batch.Entries = append(batch.Entries, e)
		if mirrored {
			e2 := AttEntry(half+start+j, src, tgt, wireEpoch*100000+50000+uint64(j))
			e2.ByKey = byKey
			singles = append(singles, &Op{Kind: "att", Entries: []Entry{e2}})
		}
	}
	rb := batch.ExecVia(context.Background(), pop, api)
	signedBatch := 0
	for i := range batch.Entries {
		if rb.OK(i) {
			signedBatch++
		}
	}
	signedSingle := 0
	for _, o := range singles {
		if o.ExecVia(context.Background(), pop, api).OK(0) {
			signedSingle++
		}
	}
	rc.Stats.Inc("wire_batches", 1)
	rc.Stats.Inc("wire_batch_entries", int64(n))
	rc.Stats.Seen("cases", fmt.Sprintf("wire/%d/%v", n, byKey))
	rc.Sample = map[string]any{"layer": "batches over the real gRPC edge", "size": n, "by_key": byKey, "signed_in_batch": signedBatch, "signed_one_at_a_time": signedSingle}
	rc.Logf("wire batch of %d (%d>%d): batch signed %d (err=%v), singles signed %d", n, src, tgt, signedBatch, rb.Err, signedSingle)
	if signedBatch != n || signedSingle != len(singles) {
		rc.Violate("C09", "batch-differs-from-one-at-a-time", fmt.Sprintf("over the gRPC edge a batch of %d valid, advancing attestation duties (%d>%d) for distinct keys had %d signed (error: %v), the same duties for %d other keys with the same history sent one at a time had %d signed", n, src, tgt, signedBatch, rb.Err, len(singles), signedSingle), 0)
	}
}

var wireEpoch uint64

func init() {
	noBubble["C09:wire"] = true
}
