package sim

import "testing"

func TestMatrixSize(t *testing.T) { t.Logf("fault matrix has %d cases", len(faultMatrix())) }
