package sim

import (
	"bytes"
	"context"
	"crypto/sha256"
	"encoding/binary"
	"fmt"

	pb "github.com/wealdtech/eth2-signer-api/pb/v1"
	e2types "github.com/wealdtech/go-eth2-types/v2"
)

// Domain types (first four bytes of a 32-byte domain).
var (
	DomAttester = [4]byte{1, 0, 0, 0}
	DomProposer = [4]byte{0, 0, 0, 0}
	DomExit     = [4]byte{4, 0, 0, 0}
)

// Entry is one signing request (one position of a batch).
type Entry struct {
	Acct   int  // index into the population
	ByKey  bool // address the account by public key instead of by name
	Both   bool // supply both name and public key
	Domain []byte
	// Attestation fields.
	Slot, CIdx          uint64
	Block, SRoot, TRoot []byte
	Src, Tgt            uint64
	// Proposal fields.
	PSlot, PIdx         uint64
	Parent, State, Body []byte
	// Generic data root.
	Data []byte
	// AddrPath / AddrKey, when set, override the population-based addressing (accounts created at run time).
	AddrPath string
	AddrKey  []byte
	// KeyPad appends junk bytes to the public key used for addressing.
	KeyPad int
	// Malformed: an attestation request that lacks a part ("no-target", "no-source", "no-data", "no-id") or is absent
	// altogether ("nil"), as a client can send it.
	Malformed string
}

// Op is one client request.
type Op struct {
	Kind    string // att | atts | prop | gen | multi
	Client  string
	IP      string
	Entries []Entry
	// base, when set, replaces the instance context as the parent of the request context (client cancellation).
	base context.Context
}

// OpResult is what the client got back.
type OpResult struct {
	States []pb.ResponseState
	Sigs   [][]byte
	Err    error
	Panic  string
}

// OK reports whether position i succeeded.
func (r *OpResult) OK(i int) bool {
	return r != nil && i < len(r.States) && r.States[i] == pb.ResponseState_SUCCEEDED
}

func (o *Op) String() string {
	s := o.Kind + "["
	for i, e := range o.Entries {
		if i > 0 {
			s += " "
		}
		by := "n"
		if e.ByKey {
			by = "k"
		}
		switch o.Kind {
		case "att", "atts":
			s += fmt.Sprintf("a%d%s:%d>%d", e.Acct, by, e.Src, e.Tgt)
		case "prop":
			s += fmt.Sprintf("a%d%s:slot%d", e.Acct, by, e.PSlot)
		default:
			s += fmt.Sprintf("a%d%s:dom%x", e.Acct, by, e.Domain[:min(4, len(e.Domain))])
		}
	}
	return s + "]"
}

func h32(parts ...any) []byte {
	h := sha256.New()
	for _, p := range parts {
		fmt.Fprintf(h, "%v|", p)
	}
	return h.Sum(nil)
}

// MkDomain builds a 32-byte domain from a type and a suffix seed.
func MkDomain(t [4]byte, suffix uint64) []byte {
	d := make([]byte, 32)
	copy(d, t[:])
	binary.LittleEndian.PutUint64(d[4:], suffix)
	copy(d[12:], h32("dom", suffix)[:20])
	return d
}

// AttEntry builds a well-formed attestation entry with roots derived from uniq.
func AttEntry(acct int, src, tgt uint64, uniq uint64) Entry {
	// A validator's duty in a slot belongs to one committee: every other entry takes its committee from the slot, so that
	// conflicting attestations agree in everything but their roots; the rest differ in the committee index as well.
	cidx := uniq % 64
	if uniq%2 == 0 {
		cidx = tgt % 64
	}
	return Entry{Acct: acct, Domain: MkDomain(DomAttester, 0), Slot: tgt * 32, CIdx: cidx,
		Block: h32("block", uniq), SRoot: h32("sroot", src), TRoot: h32("troot", uniq), Src: src, Tgt: tgt}
}

// PropEntry builds a well-formed proposal entry.
func PropEntry(acct int, slot uint64, uniq uint64) Entry {
	return Entry{Acct: acct, Domain: MkDomain(DomProposer, 0), PSlot: slot, PIdx: uniq % 1000,
		Parent: h32("parent", uniq), State: h32("state", uniq), Body: h32("body", uniq)}
}

// GenEntry builds a generic signing entry.
func GenEntry(acct int, domain []byte, uniq uint64) Entry {
	return Entry{Acct: acct, Domain: domain, Data: h32("data", uniq)}
}

func (e *Entry) addr(pop *Population) (string, []byte) {
	if e.AddrPath != "" || e.AddrKey != nil {
		return e.AddrPath, e.AddrKey
	}
	if e.KeyPad > 0 && e.Acct >= 0 {
		return "", append(append([]byte{}, pop.Accts[e.Acct].PubKey...), make([]byte, e.KeyPad)...)
	}
	if e.Acct < 0 {
		if e.ByKey {
			return "", h32("unknown key", e.Acct)[:24+24]
		}
		return fmt.Sprintf("Wallet 1/Unknown %d", -e.Acct), nil
	}
	a := pop.Accts[e.Acct]
	switch {
	case e.Both:
		return a.Path, a.PubKey
	case e.ByKey:
		return "", a.PubKey
	default:
		return a.Path, nil
	}
}

func (e *Entry) attData() *pb.AttestationData {
	return &pb.AttestationData{Slot: e.Slot, CommitteeIndex: e.CIdx, BeaconBlockRoot: own(e.Block),
		Source: &pb.Checkpoint{Epoch: e.Src, Root: own(e.SRoot)}, Target: &pb.Checkpoint{Epoch: e.Tgt, Root: own(e.TRoot)}}
}

// own returns a copy of a byte field with the same length and capacity: what the code under test is handed is its own,
// as it is behind a wire decoder - whatever it does to it, the harness still knows what it asked for.
func own(b []byte) []byte {
	if b == nil {
		return nil
	}
	c := make([]byte, len(b), cap(b))
	copy(c, b)
	return c
}

// malform removes from an attestation request the part the entry says is missing.
func (e *Entry) malform(r *pb.SignBeaconAttestationRequest) *pb.SignBeaconAttestationRequest {
	switch e.Malformed {
	case "no-target":
		r.Data.Target = nil
	case "no-source":
		r.Data.Source = nil
	case "no-data":
		r.Data = nil
	case "no-id":
		r.Id = nil
	case "nil":
		return nil
	}
	return r
}

func setAttID(r *pb.SignBeaconAttestationRequest, name string, key []byte) {
	if key != nil {
		r.Id = &pb.SignBeaconAttestationRequest_PublicKey{PublicKey: key}
	} else {
		r.Id = &pb.SignBeaconAttestationRequest_Account{Account: name}
	}
}

// signerAPI is the signing surface of an instance as a caller sees it: the handlers of an in-process instance, or a
// client connection to a daemon process.
type signerAPI interface {
	SignBeaconAttestation(ctx context.Context, req *pb.SignBeaconAttestationRequest) (*pb.SignResponse, error)
	SignBeaconAttestations(ctx context.Context, req *pb.SignBeaconAttestationsRequest) (*pb.MultisignResponse, error)
	SignBeaconProposal(ctx context.Context, req *pb.SignBeaconProposalRequest) (*pb.SignResponse, error)
	Sign(ctx context.Context, req *pb.SignRequest) (*pb.SignResponse, error)
	Multisign(ctx context.Context, req *pb.MultisignRequest) (*pb.MultisignResponse, error)
}

// Exec sends the operation to the instance through its gRPC handlers (no transport) and
// returns what a client would have received.
func (o *Op) Exec(inst *Instance) (res *OpResult) {
	ctx := inst.ClientCtx(o.Client, o.IP)
	if o.base != nil {
		ctx = ClientCtxFrom(o.base, o.Client, o.IP)
	}
	return o.ExecVia(ctx, inst.Cfg.Pop, inst.SignerH)
}

// ExecVia sends the operation through the given signing surface.
func (o *Op) ExecVia(ctx context.Context, pop *Population, api signerAPI) (res *OpResult) {
	res = &OpResult{}
	defer func() {
		if r := recover(); r != nil {
			res.Panic = fmt.Sprint(r)
		}
	}()
	one := func(r *pb.SignResponse, err error) {
		res.Err = err
		if r != nil {
			res.States = []pb.ResponseState{r.GetState()}
			res.Sigs = [][]byte{r.GetSignature()}
		}
	}
	many := func(r *pb.MultisignResponse, err error) {
		res.Err = err
		if r != nil {
			for _, x := range r.GetResponses() {
				res.States = append(res.States, x.GetState())
				res.Sigs = append(res.Sigs, x.GetSignature())
			}
		}
	}
	switch o.Kind {
	case "att":
		e := &o.Entries[0]
		name, key := e.addr(pop)
		req := &pb.SignBeaconAttestationRequest{Domain: own(e.Domain), Data: e.attData()}
		setAttID(req, name, key)
		if e.Malformed != "nil" {
			req = e.malform(req)
		}
		one(api.SignBeaconAttestation(ctx, req))
	case "atts":
		req := &pb.SignBeaconAttestationsRequest{}
		for i := range o.Entries {
			e := &o.Entries[i]
			name, key := e.addr(pop)
			r := &pb.SignBeaconAttestationRequest{Domain: own(e.Domain), Data: e.attData()}
			setAttID(r, name, key)
			r = e.malform(r)
			req.Requests = append(req.Requests, r)
		}
		many(api.SignBeaconAttestations(ctx, req))
	case "prop":
		e := &o.Entries[0]
		name, key := e.addr(pop)
		req := &pb.SignBeaconProposalRequest{Domain: own(e.Domain), Data: &pb.BeaconBlockHeader{
			Slot: e.PSlot, ProposerIndex: e.PIdx, ParentRoot: own(e.Parent), StateRoot: own(e.State), BodyRoot: own(e.Body)}}
		if key != nil {
			req.Id = &pb.SignBeaconProposalRequest_PublicKey{PublicKey: key}
		} else {
			req.Id = &pb.SignBeaconProposalRequest_Account{Account: name}
		}
		one(api.SignBeaconProposal(ctx, req))
	case "gen":
		e := &o.Entries[0]
		name, key := e.addr(pop)
		req := &pb.SignRequest{Data: own(e.Data), Domain: own(e.Domain)}
		if key != nil {
			req.Id = &pb.SignRequest_PublicKey{PublicKey: key}
		} else {
			req.Id = &pb.SignRequest_Account{Account: name}
		}
		one(api.Sign(ctx, req))
	case "multi":
		req := &pb.MultisignRequest{}
		for i := range o.Entries {
			e := &o.Entries[i]
			name, key := e.addr(pop)
			r := &pb.SignRequest{Data: own(e.Data), Domain: own(e.Domain)}
			if key != nil {
				r.Id = &pb.SignRequest_PublicKey{PublicKey: key}
			} else {
				r.Id = &pb.SignRequest_Account{Account: name}
			}
			req.Requests = append(req.Requests, r)
		}
		many(api.Multisign(ctx, req))
	default:
		panic("unknown op kind " + o.Kind)
	}
	return res
}

var _ = context.Background

// ---------------------------------------------------------------------------------------------
// Independent SSZ hash-tree-root for the three fixed-shape containers (deliberately not fastssz).

func sha(a, b []byte) []byte {
	h := sha256.New()
	h.Write(a)
	h.Write(b)
	return h.Sum(nil)
}

func u64leaf(v uint64) []byte {
	b := make([]byte, 32)
	binary.LittleEndian.PutUint64(b, v)
	return b
}

func pad32(b []byte) []byte {
	out := make([]byte, 32)
	copy(out, b)
	return out
}

func merkle(leaves [][]byte) []byte {
	n := 1
	for n < len(leaves) {
		n *= 2
	}
	layer := make([][]byte, n)
	for i := range layer {
		if i < len(leaves) {
			layer[i] = leaves[i]
		} else {
			layer[i] = make([]byte, 32)
		}
	}
	for len(layer) > 1 {
		next := make([][]byte, len(layer)/2)
		for i := range next {
			next[i] = sha(layer[2*i], layer[2*i+1])
		}
		layer = next
	}
	return layer[0]
}

// AttDataRoot is hash_tree_root(AttestationData).
func (e *Entry) AttDataRoot() []byte {
	src := sha(u64leaf(e.Src), pad32(e.SRoot))
	tgt := sha(u64leaf(e.Tgt), pad32(e.TRoot))
	return merkle([][]byte{u64leaf(e.Slot), u64leaf(e.CIdx), pad32(e.Block), src, tgt})
}

// HeaderRoot is hash_tree_root(BeaconBlockHeader).
func (e *Entry) HeaderRoot() []byte {
	return merkle([][]byte{u64leaf(e.PSlot), u64leaf(e.PIdx), pad32(e.Parent), pad32(e.State), pad32(e.Body)})
}

// SigningRoot is hash_tree_root(SigningData{object_root, domain}).
func SigningRoot(objectRoot, domain []byte) []byte { return sha(pad32(objectRoot), pad32(domain)) }

// ObjectRoot returns the object root the signature must cover for this kind of request.
func (e *Entry) ObjectRoot(kind string) []byte {
	switch kind {
	case "att", "atts":
		return e.AttDataRoot()
	case "prop":
		return e.HeaderRoot()
	default:
		return pad32(e.Data)
	}
}

// VerifySig checks a signature under pubkey over the signing root of (objectRoot, domain).
func VerifySig(pubKey, sig, objectRoot, domain []byte) bool {
	pk, err := e2types.BLSPublicKeyFromBytes(pubKey)
	if err != nil {
		return false
	}
	s, err := e2types.BLSSignatureFromBytes(sig)
	if err != nil {
		return false
	}
	return s.Verify(SigningRoot(objectRoot, domain), pk)
}

// ---------------------------------------------------------------------------------------------
// M1: ledger of released signatures with pairwise slashability checks.

type ledgerAtt struct {
	Src, Tgt uint64
	Root     []byte
	Step     int
}

type ledgerProp struct {
	Slot uint64
	Root []byte
	Step int
}

// Ledger records every signature released to a client, per key.
type Ledger struct {
	Atts  map[string][]ledgerAtt
	Props map[string][]ledgerProp
	N     int
}

// NewLedger creates an empty ledger.
func NewLedger() *Ledger {
	return &Ledger{Atts: map[string][]ledgerAtt{}, Props: map[string][]ledgerProp{}}
}

// AddAtt enters a released attestation signature and reports slashable pairs.
func (l *Ledger) AddAtt(rc *RunCtx, key string, e *Entry, step int) {
	root := e.AttDataRoot()
	for _, a := range l.Atts[key] {
		switch {
		case a.Tgt == e.Tgt && !bytes.Equal(a.Root, root):
			rc.Violate("C01", "double-vote", fmt.Sprintf("key %s: two different attestations with target %d released (steps %d and %d)", key, e.Tgt, a.Step, step), step)
		case a.Src < e.Src && e.Tgt < a.Tgt:
			rc.Violate("C01", "surround", fmt.Sprintf("key %s: released (%d>%d) at step %d surrounds (%d>%d) released at step %d", key, a.Src, a.Tgt, a.Step, e.Src, e.Tgt, step), step)
		case e.Src < a.Src && a.Tgt < e.Tgt:
			rc.Violate("C01", "surround", fmt.Sprintf("key %s: released (%d>%d) at step %d surrounds (%d>%d) released at step %d", key, e.Src, e.Tgt, step, a.Src, a.Tgt, a.Step), step)
		}
	}
	l.Atts[key] = append(l.Atts[key], ledgerAtt{Src: e.Src, Tgt: e.Tgt, Root: root, Step: step})
	l.N++
}

// AddProp enters a released proposal signature and reports double proposals.
// strict additionally demands strictly increasing slots in release order (sequential histories).
func (l *Ledger) AddProp(rc *RunCtx, key string, e *Entry, step int, strict bool) {
	root := e.HeaderRoot()
	for _, p := range l.Props[key] {
		if p.Slot == e.PSlot && !bytes.Equal(p.Root, root) {
			rc.Violate("C02", "double-proposal", fmt.Sprintf("key %s: two different blocks at slot %d released (steps %d and %d)", key, e.PSlot, p.Step, step), step)
		} else if strict && p.Slot >= e.PSlot {
			rc.Violate("C02", "slot-not-increasing", fmt.Sprintf("key %s: proposal at slot %d released after slot %d", key, e.PSlot, p.Slot), step)
		}
	}
	l.Props[key] = append(l.Props[key], ledgerProp{Slot: e.PSlot, Root: root, Step: step})
	l.N++
}

// Monitor applies M1 (ledger), M2 (signature validity) and M3 (signature iff SUCCEEDED) to one
// completed operation.
func Monitor(rc *RunCtx, l *Ledger, pop *Population, o *Op, r *OpResult, step int, strictProps bool) {
	if r.Panic != "" {
		rc.Violate("C20", "panic-in-handler", fmt.Sprintf("%s panicked: %s", o, r.Panic), step)
		return
	}
	want := len(o.Entries)
	if len(r.States) != want {
		rc.Violate("C08", "response-count", fmt.Sprintf("%s: %d responses for %d requests", o, len(r.States), want), step)
	}
	for i := range r.States {
		has := i < len(r.Sigs) && len(r.Sigs[i]) > 0
		ok := r.States[i] == pb.ResponseState_SUCCEEDED
		if has != ok {
			rc.Violate("C06", "signature-iff-succeeded", fmt.Sprintf("%s position %d: state %s but signature present=%v", o, i, r.States[i], has), step)
		}
		if !has || i >= len(o.Entries) {
			continue
		}
		e := &o.Entries[i]
		if e.Acct < 0 {
			rc.Violate("C08", "signature-for-unknown-account", fmt.Sprintf("%s position %d: signature returned for an account that does not exist", o, i), step)
			continue
		}
		a := pop.Accts[e.Acct]
		rc.Stats.Inc("signatures_released", 1)
		if len(e.AddrKey) >= 48 && !bytes.Equal(e.AddrKey[:48], a.PubKey) {
			// The request named a public key of its own choosing: whatever comes back is a signature under that key.
			if !VerifySig(e.AddrKey[:48], r.Sigs[i], e.ObjectRoot(o.Kind), e.Domain) {
				rc.Violate("C08", "invalid-signature", fmt.Sprintf("%s position %d: the request addressed the public key %x... and the signature returned does not verify under it", o, i, e.AddrKey[:6]), step)
			}
			continue
		}
		if !VerifySig(a.PubKey, r.Sigs[i], e.ObjectRoot(o.Kind), e.Domain) {
			rc.Violate("C08", "invalid-signature", fmt.Sprintf("%s position %d: signature does not verify under %s over the submitted data", o, i, a.KName), step)
		}
		// M4: endpoint <-> domain type.
		var dt [4]byte
		copy(dt[:], e.Domain)
		switch o.Kind {
		case "att", "atts":
			if dt != DomAttester {
				rc.Violate("C05", "attestation-endpoint-foreign-domain", fmt.Sprintf("%s position %d signed under domain type %x", o, i, dt), step)
			}
			l.AddAtt(rc, a.KName, e, step)
		case "prop":
			if dt != DomProposer {
				rc.Violate("C05", "proposal-endpoint-foreign-domain", fmt.Sprintf("%s signed under domain type %x", o, dt), step)
			}
			l.AddProp(rc, a.KName, e, step, strictProps)
		default:
			if dt == DomAttester || dt == DomProposer {
				rc.Violate("C05", "generic-endpoint-slashable-domain", fmt.Sprintf("%s position %d signed under domain type %x", o, i, dt), step)
			}
			// ... nor is it a signature over what ANOTHER position of the same request asked for under a slashable domain
			// (verdict of one position, payload of another).
			for j := range o.Entries {
				ej := &o.Entries[j]
				if j == i || len(ej.Domain) != 32 || len(ej.Data) != 32 {
					continue
				}
				if vt := domType(ej.Domain); (vt == DomAttester || vt == DomProposer) && VerifySig(a.PubKey, r.Sigs[i], ej.Data, ej.Domain) {
					rc.Violate("C05", "generic-signature-valid-under-slashable-domain", fmt.Sprintf("%s position %d: the signature returned verifies under %s for the root and domain (type %x) of position %d", o, i, a.KName, vt, j), step)
				}
			}
			// What a verifier sees is the 64 signed bytes, read as root then domain, whatever the lengths of the two fields were.
			if len(e.Data)+len(e.Domain) == 64 && len(e.Domain) != 32 {
				buf := append(append([]byte{}, e.Data...), e.Domain...)
				if vt := domType(buf[32:]); (vt == DomAttester || vt == DomProposer) && VerifySig(a.PubKey, r.Sigs[i], buf[:32], buf[32:]) {
					rc.Violate("C05", "generic-signature-valid-under-slashable-domain", fmt.Sprintf("%s position %d: %d data bytes and %d domain bytes were signed, and the signature verifies for root %x under domain type %x", o, i, len(e.Data), len(e.Domain), buf[:4], vt), step)
				}
			}
		}
	}
}
