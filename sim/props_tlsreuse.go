package sim

import (
	"context"
	"crypto/tls"
	"crypto/x509"
	"fmt"
	"net"
	"syscall"
	"testing"
	"time"

	"github.com/attestantio/dirk/testing/resources"
	pb "github.com/wealdtech/eth2-signer-api/pb/v1"
	"google.golang.org/grpc"
	"google.golang.org/grpc/credentials"
)

// runTLSPortReuse: several differently certified clients reach the daemon one after another from the SAME source
// address and port (a NAT, a proxy or a client binding its port does this): each connection is a TLS session of its
// own, and who the caller is has to come from the certificate verified on the connection that carries the request -
// whatever the daemon remembers about earlier connections from that address.  Every connection is closed with a
// reset, so that the port is free for the next client at once.
func runTLSPortReuse(t *testing.T, rc *RunCtx) {
	InitBLS()
	w := getTLSWorld(t, rc)
	ch := rc.Ch
	srv := w.withCA
	type ident struct {
		name     string
		crt, key []byte
		wallet   string // the wallet this client may use ("" = none)
	}
	ids := []ident{
		{"client-test01", resources.ClientTest01Crt, resources.ClientTest01Key, "Wallet 1"},
		{"client-test02", resources.ClientTest02Crt, resources.ClientTest02Key, "Wallet 2"},
		{"client-test03 (unpermitted)", resources.ClientTest03Crt, resources.ClientTest03Key, ""},
	}
	port := freePort()
	local := []string{"127.0.0.1", "127.0.0.5"}[ch.Pick(2, 0)]
	pool := x509.NewCertPool()
	pool.AppendCertsFromPEM(resources.CACrt)
	dial := func(id ident) (*grpc.ClientConn, error) {
		crt, err := tls.X509KeyPair(id.crt, id.key)
		if err != nil {
			return nil, err
		}
		cfg := &tls.Config{RootCAs: pool, ServerName: "signer-test01", MinVersion: tls.VersionTLS13, Certificates: []tls.Certificate{crt}}
		d := &net.Dialer{
			LocalAddr: &net.TCPAddr{IP: net.ParseIP(local), Port: port},
			Control: func(_, _ string, c syscall.RawConn) error {
				var serr error
				if err := c.Control(func(fd uintptr) {
					serr = syscall.SetsockoptInt(int(fd), syscall.SOL_SOCKET, syscall.SO_REUSEADDR, 1)
				}); err != nil {
					return err
				}
				return serr
			},
		}
		return grpc.NewClient(srv.addr, grpc.WithTransportCredentials(credentials.NewTLS(cfg)),
			grpc.WithContextDialer(func(ctx context.Context, addr string) (net.Conn, error) {
				c, err := d.DialContext(ctx, "tcp", addr)
				if err != nil {
					return nil, err
				}
				if tc, ok := c.(*net.TCPConn); ok {
					_ = tc.SetLinger(0) // close = reset: no TIME_WAIT, the port can be bound again at once
				}
				return c, nil
			}))
	}
	uniq := uint64(0)
	sign := func(cc *grpc.ClientConn, wallet string) (bool, string) {
		uniq++
		ctx, cancel := context.WithTimeout(context.Background(), 10*time.Second)
		defer cancel()
		r, err := pb.NewSignerClient(cc).Sign(ctx, &pb.SignRequest{Id: &pb.SignRequest_Account{Account: wallet + "/Account 0"}, Data: h32("reuse", rc.Seed, uniq), Domain: MkDomain([4]byte{7, 0, 0, 0}, uniq)})
		if err != nil {
			return false, "error: " + err.Error()
		}
		return r.GetState() == pb.ResponseState_SUCCEEDED || len(r.GetSignature()) > 0, signSummary(r.GetState(), r.GetSignature())
	}
	list := func(cc *grpc.ClientConn, wallet string) (bool, string) {
		ctx, cancel := context.WithTimeout(context.Background(), 10*time.Second)
		defer cancel()
		r, err := pb.NewListerClient(cc).ListAccounts(ctx, &pb.ListAccountsRequest{Paths: []string{wallet}})
		if err != nil {
			return false, "error: " + err.Error()
		}
		return len(r.GetAccounts()) > 0, fmt.Sprintf("a listing of %d accounts", len(r.GetAccounts()))
	}
	n := 2 + ch.Pick(4, 0)
	var seq []string
	prev := -1
	for i := 0; i < n; i++ {
		k := ch.Pick(len(ids), 0)
		if k == prev {
			k = (k + 1) % len(ids)
		}
		prev = k
		id := ids[k]
		cc, err := dial(id)
		if err != nil {
			rc.Stats.Inc("portreuse_dial_failed", 1)
			return
		}
		connected := false
		for q, nq := 0, 1+ch.Pick(3, 0); q < nq; q++ {
			for _, wl := range []string{"Wallet 1", "Wallet 2"} {
				op := sign
				opName := "sign"
				if ch.Pick(3, 0) == 2 {
					op, opName = list, "list"
				}
				got, what := op(cc, wl)
				if len(what) > 6 && what[:6] == "error:" {
					rc.Logf("%s from %s:%d %s %s: %s", id.name, local, port, opName, wl, what)
					continue
				}
				connected = true
				rc.Stats.Inc("portreuse_requests", 1)
				if got && wl != id.wallet {
					rc.Violate("C19", "identity-not-taken-from-verified-certificate", fmt.Sprintf("%s, connecting from %s:%d after %v had used that address, was given %s for %s, which it may not use", id.name, local, port, seq, what, wl), i)
					_ = cc.Close()
					return
				}
				if got && wl == id.wallet {
					rc.Stats.Inc("portreuse_own_wallet_served", 1)
				}
				if !got && wl == id.wallet {
					// Not a statement of this property by itself, but the mirror image of the above: the caller was
					// judged under somebody else's name.
					rc.Stats.Inc("portreuse_own_wallet_refused", 1)
					rc.Logf("%s was refused its own %s (%s)", id.name, wl, what)
				}
			}
		}
		_ = cc.Close()
		if !connected {
			// The port was not free yet (the previous connection's reset had not been processed): nothing learnt.
			rc.Stats.Inc("portreuse_connection_not_established", 1)
			time.Sleep(20 * time.Millisecond)
			continue
		}
		seq = append(seq, id.name)
		if len(seq) >= 2 {
			rc.Stats.Inc("portreuse_identity_changes_on_one_source_address", 1)
		}
		time.Sleep(5 * time.Millisecond)
	}
	rc.Stats.Seen("cases", fmt.Sprintf("portreuse/%v/%s", seq, local))
	rc.Sample = map[string]any{"layer": "differently certified clients from one source address and port, one after another", "sequence": seq, "source": fmt.Sprintf("%s:%d", local, port)}
}

func init() {
	noBubble["C19:portreuse"] = true
}
