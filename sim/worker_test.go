package sim

import (
	"encoding/json"
	"fmt"
	"os"
	"runtime"
	"runtime/debug"
	"strconv"
	"strings"
	"sync/atomic"
	"testing"
	"time"

	"github.com/rs/zerolog"
)

// propRunners maps a property id to the body of one simulated run.
var propRunners = map[string]func(t *testing.T, rc *RunCtx){}

// ownProps lists, per check, additional property ids whose violations the check reports as its own.
var ownProps = map[string]map[string]bool{}

// inBubble says whether a property's runs execute inside a synctest bubble.
var noBubble = map[string]bool{}

var runActive atomic.Int64 // unix nanos when the current run started (0 = idle); read by the watchdog

// runOne executes one run of a property with the given choice source.
func runOne(t *testing.T, prop, tier string, seed uint64, ch *Choice, params map[string]string) (rc *RunCtx) {
	rc = &RunCtx{Property: prop, Tier: tier, Seed: seed, Ch: ch, Stats: NewStats(), Params: params, Local: map[string]string{}}
	fn := propRunners[prop]
	if fn == nil {
		t.Fatalf("no runner for property %s", prop)
	}
	runActive.Store(time.Now().UnixNano())
	defer runActive.Store(0)
	if !haveBubble {
		rc.Stats.Inc("runs_hosted_by_build_with_repository_toolchain", 1)
	}
	// The log level is a configuration knob of a deployment like any other (what is written goes nowhere here): services
	// created in this run log at the drawn level.  Decision 0 = logging off.
	lvl := []zerolog.Level{zerolog.Disabled, zerolog.Disabled, zerolog.Disabled, zerolog.TraceLevel, zerolog.DebugLevel, zerolog.InfoLevel, zerolog.WarnLevel, zerolog.ErrorLevel}[ch.Pick(8, 0)]
	zerolog.SetGlobalLevel(lvl)
	rc.Stats.Inc("runs_with_log_level_"+lvl.String(), 1)
	// util.Scatter sizes its worker pool from GOMAXPROCS, so the process-wide setting is an input of the
	// run: it is pinned here and drawn from the choice source by the runners that vary it.
	prevProcs := runtime.GOMAXPROCS(4)
	defer runtime.GOMAXPROCS(prevProcs)
	body := func(t *testing.T) {
		defer func() {
			if r := recover(); r != nil {
				rc.Logf("harness panic: %v\n%s", r, debug.Stack())
				rc.Violate("HARNESS", "panic", fmt.Sprint(r), -1)
			}
		}()
		fn(t, rc)
	}
	if noBubble[prop] || noBubble[prop+":"+params["mode"]] {
		body(t)
		return rc
	}
	func() {
		defer func() {
			if r := recover(); r != nil {
				msg := fmt.Sprint(r)
				if strings.Contains(msg, "deadlock") {
					rc.Stats.Inc("bubble_leftover_goroutines", 1)
					if os.Getenv("VERIF_DEBUG_LEFTOVER") != "" {
						buf := make([]byte, 1<<20)
						buf = buf[:runtime.Stack(buf, true)]
						fmt.Fprintf(os.Stderr, "LEFTOVER after seed %d:\n%s\n", seed, buf)
					}
					return
				}
				panic(r)
			}
		}()
		bubbleTest(t, body)
	}()
	return rc
}

func envInt(name string, def int64) int64 {
	if v := os.Getenv(name); v != "" {
		n, err := strconv.ParseInt(v, 10, 64)
		if err == nil {
			return n
		}
	}
	return def
}

func parseParams(s string) map[string]string {
	m := map[string]string{}
	for _, kv := range strings.Split(s, ",") {
		if i := strings.IndexByte(kv, '='); i > 0 {
			m[kv[:i]] = kv[i+1:]
		}
	}
	return m
}

// WorkerOut is what one worker process reports.
type WorkerOut struct {
	Property    string              `json:"property"`
	Tier        string              `json:"tier"`
	Mode        string              `json:"mode"`
	SeedBase    uint64              `json:"seed_base"`
	Runs        int                 `json:"runs"`
	Truncated   int                 `json:"truncated"`
	WallS       float64             `json:"wall_s"`
	SimTimeS    float64             `json:"sim_time_s"`
	Counters    map[string]int64    `json:"counters"`
	Distinct    map[string]int      `json:"distinct"`
	DistinctSet map[string][]string `json:"distinct_set,omitempty"`
	Samples     []map[string]any    `json:"samples"`
	Violations  []ReplayFile        `json:"violations"`
	Hashes      map[string]string   `json:"hashes,omitempty"` // selftest: seed -> event-log hash
	Error       string              `json:"error,omitempty"`
}

func startWatchdog(limit time.Duration) {
	go func() {
		for {
			time.Sleep(2 * time.Second)
			st := runActive.Load()
			if st != 0 && time.Since(time.Unix(0, st)) > limit {
				buf := make([]byte, 1<<20)
				buf = buf[:runtime.Stack(buf, true)]
				fmt.Fprintf(os.Stderr, "WATCHDOG: run exceeded %v of real time; goroutines:\n%s\n", limit, buf)
				os.Exit(3)
			}
		}
	}()
}

// TestWorker is the entry point used by bin/check: VERIF_* environment variables select what it does.
func TestWorker(t *testing.T) {
	prop := os.Getenv("VERIF_PROP")
	if prop == "" {
		t.Skip("VERIF_PROP not set")
	}
	tier := os.Getenv("VERIF_TIER")
	if tier == "" {
		tier = "quick"
	}
	mode := os.Getenv("VERIF_MODE")
	if mode == "" {
		mode = "search"
	}
	outPath := os.Getenv("VERIF_OUT")
	params := parseParams(os.Getenv("VERIF_PARAMS"))
	seedBase := uint64(envInt("VERIF_SEED_BASE", 1))
	// Enumerated layers index their tables by (seed - origin); the origin stays fixed when the driver splits a
	// worker's seed range over several processes.
	params["_seed_base"] = strconv.FormatUint(uint64(envInt("VERIF_SEED_ORIGIN", int64(seedBase))), 10)
	runs := int(envInt("VERIF_RUNS", 100))
	budget := time.Duration(envInt("VERIF_BUDGET_S", 3600)) * time.Second
	startWatchdog(time.Duration(envInt("VERIF_WATCHDOG_S", 120)) * time.Second)
	defer CleanupScratch()

	out := &WorkerOut{Property: prop, Tier: tier, Mode: mode, SeedBase: seedBase, Counters: map[string]int64{}, Distinct: map[string]int{}}
	total := NewStats()
	start := time.Now()
	write := func() {
		out.WallS = time.Since(start).Seconds()
		out.Counters = total.Counters
		for k, m := range total.Distinct {
			out.Distinct[k] = len(m)
			if os.Getenv("VERIF_EMIT_SETS") != "" {
				if out.DistinctSet == nil {
					out.DistinctSet = map[string][]string{}
				}
				out.DistinctSet[k] = sortedKeys(m)
			}
		}
		if outPath != "" {
			b, _ := json.MarshalIndent(out, "", " ")
			if err := os.WriteFile(outPath, b, 0o644); err != nil {
				t.Fatalf("write %s: %v", outPath, err)
			}
		}
	}

	switch mode {
	case "child":
		runChild(t)
		return
	case "replay":
		b, err := os.ReadFile(os.Getenv("VERIF_REPLAY"))
		if err != nil {
			t.Fatalf("read replay: %v", err)
		}
		var rf ReplayFile
		if err := json.Unmarshal(b, &rf); err != nil {
			t.Fatalf("parse replay: %v", err)
		}
		if rf.Params == nil {
			rf.Params = map[string]string{}
		}
		var ch *Choice
		if rf.Vector == nil {
			ch = NewSeedChoice(rf.Seed)
		} else {
			ch = NewReplayChoice(rf.Vector)
		}
		for _, hs := range rf.History {
			_ = runOne(t, rf.Property, rf.Tier, hs, NewSeedChoice(hs), rf.Params)
			total.Inc("replay_history_runs", 1)
		}
		rc := runOne(t, rf.Property, rf.Tier, rf.Seed, ch, rf.Params)
		// Worlds with a source of nondeterminism the simulator cannot own (Go map iteration inside
		// OnExecute) may need several attempts to take the same branch again.
		for attempt := int64(1); attempt < envInt("VERIF_REPLAY_ATTEMPTS", 1); attempt++ {
			hit := false
			for _, v := range rc.Viol {
				if v.Property == rf.Violation.Property && v.Key == rf.Violation.Key {
					hit = true
				}
			}
			if hit {
				break
			}
			if rf.Vector == nil {
				ch = NewSeedChoice(rf.Seed)
			} else {
				ch = NewReplayChoice(rf.Vector)
			}
			rc = runOne(t, rf.Property, rf.Tier, rf.Seed, ch, rf.Params)
			total.Inc("replay_extra_attempts", 1)
		}
		out.Runs = 1
		total.Merge(rc.Stats)
		for _, v := range rc.Viol {
			out.Violations = append(out.Violations, ReplayFile{Property: v.Property, Tier: rf.Tier, Seed: rf.Seed, Params: rf.Params, Vector: rc.Ch.Vector, Violation: v, Trace: rc.Trace})
		}
		write()
		return
	case "selftest":
		// Determinism self-test: each seed is run twice in this process; the canonical event logs must agree.
		out.Hashes = map[string]string{}
		for i := 0; i < runs; i++ {
			seed := seedBase + uint64(i)
			a := runOne(t, prop, tier, seed, NewSeedChoice(seed), params)
			b := runOne(t, prop, tier, seed, NewSeedChoice(seed), params)
			ha, hb := traceHash(a), traceHash(b)
			if ha != hb {
				out.Error = fmt.Sprintf("nondeterminism: seed %d gave two different event logs in one process", seed)
				dumpDiff(a, b)
			}
			out.Hashes[strconv.FormatUint(seed, 10)] = ha
			if d := os.Getenv("VERIF_TRACE_DIR"); d != "" {
				_ = os.WriteFile(d+"/"+strconv.FormatUint(seed, 10)+".trace", []byte(strings.Join(a.Trace, "\n")), 0o644)
			}
			out.Runs += 2
		}
		write()
		return
	}

	maxViol := int(envInt("VERIF_MAX_VIOLATIONS", 1))
	seenKeys := map[string]bool{}
	for i := 0; i < runs && time.Since(start) < budget; i++ {
		seed := seedBase + uint64(i)
		if outPath != "" {
			// Write-ahead: if the process dies in this run, the driver knows which seed to replay.
			_ = os.WriteFile(outPath+".cur", []byte(strconv.FormatUint(seed, 10)), 0o644)
		}
		rc := runOne(t, prop, tier, seed, NewSeedChoice(seed), params)
		out.Runs++
		total.Merge(rc.Stats)
		if rc.Truncated {
			out.Truncated++
		}
		if rc.Sample != nil && len(out.Samples) < 3 {
			rc.Sample["seed"] = seed
			out.Samples = append(out.Samples, rc.Sample)
		}
		var own []Violation
		for _, v := range rc.Viol {
			if v.Property == prop || v.Property == "HARNESS" || ownProps[prop][v.Property] {
				own = append(own, v)
			} else {
				total.Inc("foreign_violation_"+v.Property+"_"+v.Key, 1)
			}
		}
		if len(own) > 0 {
			v := own[0]
			for _, x := range own {
				if x.Property != "HARNESS" {
					v = x
					break
				}
			}
			k := v.Property + "/" + v.Key
			if !seenKeys[k] {
				seenKeys[k] = true
				var rf ReplayFile
				if v.Property == "HARNESS" {
					rf = ReplayFile{Property: v.Property, Tier: tier, Seed: seed, Params: params, Violation: v, Trace: rc.Trace}
				} else {
					rf = minimise(t, prop, tier, seed, params, rc, v)
				}
				from := seedBase
				rf.HistoryFrom = &from
				out.Violations = append(out.Violations, rf)
			}
			// A harness problem makes the run inconclusive; the search goes on, because a violation of the property
			// found later is what gets reported.
			real := 0
			for _, x := range out.Violations {
				if x.Violation.Property != "HARNESS" {
					real++
				}
			}
			if real >= maxViol {
				break
			}
		}
		if i%64 == 63 {
			write()
		}
		if i%16 == 15 {
			// Memory guard: stop early (the driver continues the seed range in a fresh process).
			var ms runtime.MemStats
			runtime.ReadMemStats(&ms)
			if ms.Sys > uint64(envInt("VERIF_MAX_SYS_MB", 6000))<<20 {
				total.Inc("worker_recycled_for_memory", 1)
				break
			}
		}
	}
	write()
	if outPath != "" {
		_ = os.Remove(outPath + ".cur")
	}
}

func traceHash(rc *RunCtx) string {
	return hexShort(h32(strings.Join(rc.Trace, "\n"), len(rc.Viol))[:6])
}

func dumpDiff(a, b *RunCtx) {
	n := len(a.Trace)
	if len(b.Trace) < n {
		n = len(b.Trace)
	}
	for i := 0; i < n; i++ {
		if a.Trace[i] != b.Trace[i] {
			fmt.Fprintf(os.Stderr, "first divergence at log line %d:\n  A: %s\n  B: %s\n", i, a.Trace[i], b.Trace[i])
			return
		}
	}
	fmt.Fprintf(os.Stderr, "logs differ in length: %d vs %d\n", len(a.Trace), len(b.Trace))
}

// minimise shrinks the choice vector of a violating run while the same canonical violation
// (property + key) persists: delete chunks, then zero entries, then lower values.
func minimise(t *testing.T, prop, tier string, seed uint64, params map[string]string, rc *RunCtx, v Violation) ReplayFile {
	best := append([]uint32{}, rc.Ch.Vector...)
	bestRC := rc
	orig := len(best)
	deadline := time.Now().Add(time.Duration(envInt("VERIF_MIN_BUDGET_S", 60)) * time.Second)
	tries := 0
	maxTries := int(envInt("VERIF_MIN_TRIES", 400))
	same := func(vec []uint32) (*RunCtx, bool) {
		if tries >= maxTries || time.Now().After(deadline) {
			return nil, false
		}
		tries++
		for attempt := int64(0); attempt < envInt("VERIF_REPLAY_ATTEMPTS", 1); attempt++ {
			r := runOne(t, prop, tier, seed, NewReplayChoice(vec), params)
			for _, x := range r.Viol {
				if x.Property == v.Property && x.Key == v.Key {
					return r, true
				}
			}
			if attempt >= 2 {
				break
			}
		}
		return nil, false
	}
	// First confirm that the recorded vector reproduces at all.
	if r, ok := same(best); ok {
		bestRC = r
		best = append([]uint32{}, r.Ch.Vector...)
	} else {
		return ReplayFile{Property: v.Property, Tier: tier, Seed: seed, Params: params, Vector: nil, Violation: v, Trace: rc.Trace, OrigLen: orig,
			Note: "the recorded choice vector did not reproduce in-process; replay is by seed"}
	}
	// Once the budget is spent no candidate is tried any more: leave the loops (a free-running run's vector has
	// hundreds of thousands of entries; walking it entry by entry for nothing took a worker ten minutes).
	spent := func() bool { return tries >= maxTries || time.Now().After(deadline) }
	for chunk := len(best) / 2; chunk >= 1 && !spent(); chunk /= 2 {
		for i := 0; i+chunk <= len(best) && !spent(); {
			cand := append(append([]uint32{}, best[:i]...), best[i+chunk:]...)
			if r, ok := same(cand); ok {
				best = append([]uint32{}, r.Ch.Vector...)
				bestRC = r
				if len(best) > len(cand) {
					best = best[:len(cand)]
				}
			} else {
				i += chunk
			}
		}
	}
	for pass := 0; pass < 2 && !spent(); pass++ {
		for i := 0; i < len(best) && !spent(); i++ {
			if best[i] == 0 {
				continue
			}
			cand := append([]uint32{}, best...)
			cand[i] = 0
			if r, ok := same(cand); ok {
				best, bestRC = cand, r
				continue
			}
			// Lower the value step by step: half, then decrement while that keeps the violation.
			for _, v := range []uint32{best[i] / 2, best[i] - 1} {
				if v == 0 || v >= best[i] {
					continue
				}
				cand[i] = v
				if r, ok := same(cand); ok {
					best, bestRC = append([]uint32{}, cand...), r
				}
			}
		}
	}
	// Trim trailing zeros (an exhausted vector reads as zeros).
	for len(best) > 0 && best[len(best)-1] == 0 {
		best = best[:len(best)-1]
	}
	vv := v
	for _, x := range bestRC.Viol {
		if x.Property == v.Property && x.Key == v.Key {
			vv = x
			break
		}
	}
	return ReplayFile{Property: v.Property, Tier: tier, Seed: seed, Params: params, Vector: best, Violation: vv, Trace: bestRC.Trace, Minimised: true, OrigLen: orig}
}

func init() {
	propRunners["C04"] = func(t *testing.T, rc *RunCtx) { runConc(t, rc, "C04") }
	propRunners["C15"] = func(t *testing.T, rc *RunCtx) { runConc(t, rc, "C15") }
}
