package sim

import (
	"context"
	"errors"
	"fmt"
	"io"
	"os"
	"path/filepath"
	"sort"
	"sync/atomic"
	"testing"

	"github.com/attestantio/dirk/core"
	"github.com/attestantio/dirk/rules"
	standardrules "github.com/attestantio/dirk/rules/standard"
	"github.com/attestantio/dirk/services/accountmanager"
	standardaccountmanager "github.com/attestantio/dirk/services/accountmanager/standard"
	accountmanagerhandler "github.com/attestantio/dirk/services/api/grpc/handlers/accountmanager"
	listerhandler "github.com/attestantio/dirk/services/api/grpc/handlers/lister"
	signerhandler "github.com/attestantio/dirk/services/api/grpc/handlers/signer"
	walletmanagerhandler "github.com/attestantio/dirk/services/api/grpc/handlers/walletmanager"
	"github.com/attestantio/dirk/services/api/grpc/interceptors"
	"github.com/attestantio/dirk/services/checker"
	staticchecker "github.com/attestantio/dirk/services/checker/static"
	memfetcher "github.com/attestantio/dirk/services/fetcher/mem"
	"github.com/attestantio/dirk/services/lister"
	standardlister "github.com/attestantio/dirk/services/lister/standard"
	syncmaplocker "github.com/attestantio/dirk/services/locker/syncmap"
	"github.com/attestantio/dirk/services/process"
	"github.com/attestantio/dirk/services/ruler"
	goruler "github.com/attestantio/dirk/services/ruler/golang"
	"github.com/attestantio/dirk/services/signer"
	standardsigner "github.com/attestantio/dirk/services/signer/standard"
	localunlocker "github.com/attestantio/dirk/services/unlocker/local"
	"github.com/attestantio/dirk/services/walletmanager"
	standardwalletmanager "github.com/attestantio/dirk/services/walletmanager/standard"
	"github.com/herumi/bls-eth-go-binary/bls"
	"github.com/rs/zerolog"
	zerologger "github.com/rs/zerolog/log"
	e2wtypes "github.com/wealdtech/go-eth2-wallet-types/v2"
)

func init() {
	zerolog.SetGlobalLevel(zerolog.Disabled)
	// whatever the services write goes nowhere; whether they write is the run's log level (worker_test.go)
	zerologger.Logger = zerolog.New(io.Discard)
}

// FullPermissions gives the named clients every operation on every wallet.
func FullPermissions(clients ...string) map[string][]*checker.Permissions {
	m := map[string][]*checker.Permissions{}
	for _, c := range clients {
		m[c] = []*checker.Permissions{{Path: ".*", Operations: []string{"All"}}}
	}
	return m
}

// InstCfg configures one Dirk instance incarnation.
type InstCfg struct {
	Dir         string
	Pop         *Population
	Permissions map[string][]*checker.Permissions
	AdminIPs    []string
	Plan        *FaultPlan
	// PeriodicPruning is main.go's server.rules.periodic-pruning (process layers only: the collection
	// timer's period is drawn from crypto/rand by the code under test).
	PeriodicPruning bool
	// Process, when set, is built by the caller (W2); W1 uses none.
	MakeProcess func(inst *Instance) (process.Service, error)
	// AccountManager: build the account and wallet managers although the instance has no generation process.
	AccountManager bool
	// NoAccountPassphrases: the unlocker is configured without account passphrases (accounts are unlocked by hand).
	NoAccountPassphrases bool
}

// Instance is one running incarnation of a Dirk signer stack: all real services, wired as
// main.go / testing/daemon wire them, minus gRPC transport (handlers are called directly).
type Instance struct {
	Name      string
	Cfg       InstCfg
	Ctx       context.Context
	cancel    context.CancelFunc
	Rules     *standardrules.Service
	RulesW    *RulesWrap
	LockerW   *LockerWrap
	Fetcher   *memfetcher.Service
	FetcherW  *FetcherWrap
	Checker   checker.Service
	Signer    signer.Service
	SignerH   *signerhandler.Handler
	ListerH   *listerhandler.Handler
	AcctH     *accountmanagerhandler.Handler
	WalletH   *walletmanagerhandler.Handler
	Process   process.Service
	Lister    lister.Service
	AcctMgr   accountmanager.Service
	WalletMgr walletmanager.Service
	inStoreOp atomic.Int32
	Dead      bool
	Closed    bool
	OnSign    func(keyName string, root []byte)
	// OnStoreDone is called synchronously on the goroutine whose storage operation is returning.
	OnStoreDone func(op string)
	sched       *Sched
}

// BootInstance opens a Dirk stack like NewInstance, inside a bubble, and hands the goroutines the stack started
// for itself (storage housekeeping) to the scheduler: they park at their first yield point instead of racing the run.
func BootInstance(s *Sched, name string, cfg InstCfg) (*Instance, error) {
	bg := s.BeginBoot(name)
	inst, err := NewInstance(s, name, cfg)
	s.EndBoot(bg, inst)
	return inst, err
}

// NewInstance opens a Dirk stack on cfg.Dir.
func NewInstance(s *Sched, name string, cfg InstCfg) (*Instance, error) {
	ctx, cancel := context.WithCancel(context.Background())
	inst := &Instance{Name: name, Cfg: cfg, Ctx: ctx, cancel: cancel, sched: s}
	if cfg.Plan == nil {
		cfg.Plan = NewFaultPlan()
		inst.Cfg.Plan = cfg.Plan
	}
	fail := func(err error) (*Instance, error) { cancel(); return nil, err }

	rulesSvc, err := standardrules.New(ctx,
		standardrules.WithStoragePath(cfg.Dir),
		standardrules.WithAdminIPs(cfg.AdminIPs),
		standardrules.WithPeriodicPruning(cfg.PeriodicPruning),
		standardrules.WithLogLevel(zerolog.GlobalLevel()),
	)
	if err != nil {
		return fail(fmt.Errorf("rules: %w", err))
	}
	inst.Rules = rulesSvc
	s.RegisterStore(rulesSvc.VerifStore(), inst)
	inst.RulesW = &RulesWrap{Service: rulesSvc, s: s, inst: inst, plan: cfg.Plan}

	lockerSvc, err := syncmaplocker.New(ctx)
	if err != nil {
		return fail(err)
	}
	// The ruler gets the real locker itself (its yield points are the verifhook calls inside it): a wrapper would
	// hide whatever optional interfaces the locker offers from the ruler's type assertions.
	inst.LockerW = &LockerWrap{Service: lockerSvc, s: s}
	rulerSvc, err := goruler.New(ctx, goruler.WithLocker(lockerSvc), goruler.WithRules(inst.RulesW))
	if err != nil {
		return fail(err)
	}
	checkerSvc, err := staticchecker.New(ctx, staticchecker.WithPermissions(cfg.Permissions))
	if err != nil {
		return fail(fmt.Errorf("checker: %w", err))
	}
	inst.Checker = &CheckerWrap{Service: checkerSvc, plan: cfg.Plan, pop: cfg.Pop}
	var fetcherSvc *memfetcher.Service
	if cfg.Pop.Shared && cfg.Pop.sharedFetcher != nil {
		fetcherSvc = cfg.Pop.sharedFetcher
	} else {
		mf, err := memfetcher.New(context.Background(), memfetcher.WithStores([]e2wtypes.Store{cfg.Pop.Store}), memfetcher.WithEncryptor(cfg.Pop.Encryptor))
		if err != nil {
			return fail(err)
		}
		fetcherSvc = mf
		inst.Fetcher = mf
		if cfg.Pop.Shared {
			for _, a := range cfg.Pop.Accts {
				if a.Batched {
					continue
				}
				_, acc, err := mf.FetchAccount(ctx, a.Path)
				if err != nil {
					return fail(err)
				}
				if err := acc.(e2wtypes.AccountLocker).Unlock(ctx, []byte("pass")); err != nil {
					return fail(err)
				}
			}
			cfg.Pop.sharedFetcher = mf
		}
	}
	inst.FetcherW = &FetcherWrap{Service: fetcherSvc, s: s, inst: inst, plan: cfg.Plan, pop: cfg.Pop, wrap: map[e2wtypes.Account]e2wtypes.Account{}}
	acctPass := []string{"pass", BatchPassphrase}
	if cfg.NoAccountPassphrases {
		acctPass = []string{}
	}
	unlockerSvc, err := localunlocker.New(ctx, localunlocker.WithWalletPassphrases([]string{"pass"}), localunlocker.WithAccountPassphrases(acctPass))
	if err != nil {
		return fail(err)
	}
	unlockerW := &UnlockerWrap{Service: unlockerSvc, plan: cfg.Plan, s: s}
	var signerRuler ruler.Service = rulerSvc
	if cfg.Plan != nil {
		signerRuler = &RulerWrap{Service: rulerSvc, plan: cfg.Plan, s: s}
	}
	signerSvc, err := standardsigner.New(ctx,
		standardsigner.WithUnlocker(unlockerW), standardsigner.WithChecker(inst.Checker),
		standardsigner.WithFetcher(inst.FetcherW), standardsigner.WithRuler(signerRuler))
	if err != nil {
		return fail(err)
	}
	inst.Signer = signerSvc
	listerSvc, err := standardlister.New(ctx, standardlister.WithFetcher(inst.FetcherW), standardlister.WithChecker(inst.Checker), standardlister.WithRuler(rulerSvc))
	if err != nil {
		return fail(err)
	}
	inst.Lister = listerSvc
	if cfg.MakeProcess != nil {
		p, err := cfg.MakeProcess(inst)
		if err != nil {
			return fail(err)
		}
		inst.Process = p
	}
	amProcess := inst.Process
	if amProcess == nil && cfg.AccountManager {
		// lock and unlock requests never reach the process service
		amProcess = noProcess{}
	}
	if amProcess != nil {
		am, err := standardaccountmanager.New(ctx,
			standardaccountmanager.WithUnlocker(unlockerW), standardaccountmanager.WithChecker(inst.Checker),
			standardaccountmanager.WithFetcher(inst.FetcherW), standardaccountmanager.WithRuler(rulerSvc),
			standardaccountmanager.WithProcess(amProcess))
		if err != nil {
			return fail(err)
		}
		wm, err := standardwalletmanager.New(ctx,
			standardwalletmanager.WithUnlocker(unlockerW), standardwalletmanager.WithChecker(inst.Checker),
			standardwalletmanager.WithFetcher(inst.FetcherW), standardwalletmanager.WithRuler(rulerSvc))
		if err != nil {
			return fail(err)
		}
		inst.AcctMgr, inst.WalletMgr = am, wm
		if inst.AcctH, err = accountmanagerhandler.New(ctx, accountmanagerhandler.WithAccountManager(am), accountmanagerhandler.WithProcess(amProcess)); err != nil {
			return fail(err)
		}
		if inst.WalletH, err = walletmanagerhandler.New(ctx, walletmanagerhandler.WithWalletManager(wm), walletmanagerhandler.WithProcess(amProcess)); err != nil {
			return fail(err)
		}
	}
	if inst.SignerH, err = signerhandler.New(ctx, signerhandler.WithSigner(signerSvc)); err != nil {
		return fail(err)
	}
	if inst.ListerH, err = listerhandler.New(ctx, listerhandler.WithLister(listerSvc)); err != nil {
		return fail(err)
	}
	return inst, nil
}

// Close shuts the instance down cleanly (store closed).
func (i *Instance) Close() {
	if !i.Closed {
		i.Closed = true
		_ = i.Rules.Close(context.Background())
	}
	i.cancel()
}

// ClientCtx builds the context the gRPC interceptors would have produced for a client.
func (i *Instance) ClientCtx(client, ip string) context.Context {
	return ClientCtxFrom(i.Ctx, client, ip)
}

// ClientCtxFrom builds a request context on a given parent.
func ClientCtxFrom(ctx context.Context, client, ip string) context.Context {
	if client != "" {
		ctx = context.WithValue(ctx, &interceptors.ClientName{}, client)
	}
	if ip != "" {
		ctx = context.WithValue(ctx, &interceptors.ExternalIP{}, ip)
	}
	return ctx
}

// Export returns the slashing-protection export of the instance, keyed by key name.
func (i *Instance) Export() (map[string]Watermark, error) {
	m, err := i.Rules.ExportSlashingProtection(context.Background())
	if err != nil {
		return nil, err
	}
	out := map[string]Watermark{}
	for k, v := range m {
		out[i.Cfg.Pop.KeyName(k[:])] = Watermark{Src: v.HighestAttestedSourceEpoch, Tgt: v.HighestAttestedTargetEpoch, Slot: v.HighestProposedSlot}
	}
	return out, nil
}

// Watermark is the per-key slashing-protection record (-1 = none).
type Watermark struct{ Src, Tgt, Slot int64 }

// NoWatermark is the record of a key that never signed.
var NoWatermark = Watermark{-1, -1, -1}

func (w Watermark) String() string {
	return fmt.Sprintf("(src=%d,tgt=%d,slot=%d)", w.Src, w.Tgt, w.Slot)
}

// ExportString renders an export canonically.
func ExportString(m map[string]Watermark) string {
	ks := make([]string, 0, len(m))
	for k := range m {
		ks = append(ks, k)
	}
	sort.Strings(ks)
	s := ""
	for _, k := range ks {
		s += k + m[k].String() + " "
	}
	return s
}

var _ = rules.APPROVED

// ---------------------------------------------------------------------------------------------

// Scratch directories.

var scratchRoot string

// ScratchRoot returns the per-process scratch root (under VERIF_SCRATCH, default /dev/shm).
func ScratchRoot() string {
	if scratchRoot != "" {
		return scratchRoot
	}
	base := os.Getenv("VERIF_SCRATCH")
	if base == "" {
		if st, err := os.Stat("/dev/shm"); err == nil && st.IsDir() {
			base = "/dev/shm"
		} else {
			base = os.TempDir()
		}
	}
	d, err := os.MkdirTemp(base, "verifsim-")
	if err != nil {
		panic(err)
	}
	scratchRoot = d
	return d
}

// CleanupScratch removes the per-process scratch root.
func CleanupScratch() {
	if scratchRoot != "" {
		_ = os.RemoveAll(scratchRoot)
		scratchRoot = ""
	}
}

var dirCounter int

// NewRunDir creates an empty directory for one store.
func NewRunDir(tb testing.TB) string {
	dirCounter++
	d := filepath.Join(ScratchRoot(), fmt.Sprintf("r%d", dirCounter))
	if err := os.MkdirAll(d, 0o700); err != nil {
		tb.Fatalf("mkdir: %v", err)
	}
	return d
}

// CopyDir copies a (flat) badger directory, skipping the LOCK file.
func CopyDir(src, dst string) error {
	if err := os.MkdirAll(dst, 0o700); err != nil {
		return err
	}
	ents, err := os.ReadDir(src)
	if err != nil {
		return err
	}
	for _, e := range ents {
		if e.IsDir() || e.Name() == "LOCK" {
			continue
		}
		b, err := os.ReadFile(filepath.Join(src, e.Name()))
		if err != nil {
			return err
		}
		if err := os.WriteFile(filepath.Join(dst, e.Name()), b, 0o600); err != nil {
			return err
		}
	}
	return nil
}

// noProcess stands where an instance without peers has no key-generation process: every call is refused.
type noProcess struct{}

var errNoProcess = errors.New("this instance runs no key-generation process")

func (noProcess) OnPrepare(context.Context, uint64, string, []byte, uint32, []*core.Endpoint) error {
	return errNoProcess
}
func (noProcess) OnExecute(context.Context, uint64, string) error { return errNoProcess }
func (noProcess) OnCommit(context.Context, uint64, string, []byte) ([]byte, []byte, error) {
	return nil, nil, errNoProcess
}
func (noProcess) OnAbort(context.Context, uint64, string) error { return errNoProcess }
func (noProcess) OnGenerate(context.Context, *checker.Credentials, string, []byte, uint32, uint32) ([]byte, []*core.Endpoint, error) {
	return nil, nil, errNoProcess
}
func (noProcess) OnContribute(context.Context, uint64, string, bls.SecretKey, []bls.PublicKey) (bls.SecretKey, []bls.PublicKey, error) {
	return bls.SecretKey{}, nil, errNoProcess
}
