package sim

import (
	"fmt"
	"sort"
	"strconv"
	"strings"
	"testing"

	"github.com/herumi/bls-eth-go-binary/bls"
	pb "github.com/wealdtech/eth2-signer-api/pb/v1"
)

type dkgCase struct {
	N, T  int
	Kind  string // prepare | execute | contribute
	From  int    // index into participants (or -1 = initiator) of the sender
	To    int    // index into participants of the receiver
	Fault string
}

func (d dkgCase) String() string {
	return fmt.Sprintf("n%d/t%d/%s/%d>%d/%s", d.N, d.T, d.Kind, d.From, d.To, d.Fault)
}

var dkgConfigsQuick = [][2]int{{2, 2}, {3, 2}, {3, 3}, {4, 3}, {5, 3}}
var dkgConfigsThorough = [][2]int{{2, 2}, {3, 2}, {3, 3}, {4, 3}, {5, 3}, {5, 4}, {7, 4}}

var unaryFaults = []string{"lost", "error-reply", "lost-reply", "duplicate"}
var contribTampers = []string{"share-replaced", "share-other-id", "commitment-altered", "commitment0-altered", "vvec-short", "vvec-long", "vvec-short-consistent", "vvec-long-consistent", "vvec-empty"}

// dkgMatrix enumerates every message of the prepare/execute/contribute sequence (requests and
// replies) x every fault kind, for the given (n,t) configurations.  Participants have ids 1..n
// and the initiator is participant 0, so contribution swaps go from the lower to the higher index.
func dkgMatrix(cfgs [][2]int) []dkgCase {
	var out []dkgCase
	for _, nt := range cfgs {
		n, t := nt[0], nt[1]
		for _, kind := range []string{"prepare", "execute"} {
			for to := 0; to < n; to++ {
				for _, f := range unaryFaults {
					out = append(out, dkgCase{n, t, kind, -1, to, f})
				}
			}
		}
		for i := 0; i < n; i++ {
			for j := i + 1; j < n; j++ {
				for _, f := range unaryFaults {
					out = append(out, dkgCase{n, t, "contribute", i, j, f})
				}
				for _, f := range contribTampers {
					out = append(out, dkgCase{n, t, "contribute", i, j, "req-" + f})
					out = append(out, dkgCase{n, t, "contribute", i, j, "reply-" + f})
				}
				// the genuine contribution, then the same participant's contribution once more in altered form
				for _, f := range contribTampers {
					out = append(out, dkgCase{n, t, "contribute", i, j, "redelivered-" + f})
				}
			}
		}
	}
	return out
}

// runDKGFaults is the body of C13.
func runDKGFaults(t *testing.T, rc *RunCtx) {
	bls.SetRandFunc(newSeedReader(rc.Seed))
	defer bls.SetRandFunc(nil)
	ch := rc.Ch
	var dc dkgCase
	var second *dkgCase
	cfgs := dkgConfigsQuick
	if rc.Tier == "thorough" {
		cfgs = dkgConfigsThorough
	}
	m := dkgMatrix(cfgs)
	if rc.Param("mode", "") == "matrix" {
		worker, _ := strconv.Atoi(rc.Param("mw", "0"))
		workers, _ := strconv.Atoi(rc.Param("mW", "1"))
		base, _ := strconv.ParseUint(rc.Param("_seed_base", "0"), 10, 64)
		idx := int(rc.Seed-base)*workers + worker
		if idx >= len(m) {
			rc.Stats.Inc("matrix_padding_runs", 1)
			return
		}
		if idx == 0 {
			rc.Stats.Inc("matrix_total", int64(len(m)))
		}
		rc.Stats.Inc("matrix_cases", 1)
		dc = m[idx]
	} else {
		// Random double faults, on drawn id sets and participant orders.
		dc = m[ch.Pick(len(m), 0)]
		for tries := 0; tries < 20; tries++ {
			x := m[ch.Pick(len(m), 0)]
			if x.N == dc.N && x.T == dc.T && !(x.Kind == dc.Kind && x.From == dc.From && x.To == dc.To) {
				second = &x
				break
			}
		}
	}
	if rc.Param("mode", "") != "matrix" && ch.Pick(4, 0) == 3 {
		runDKGSameNameRace(t, rc)
		return
	}
	n, th := dc.N, dc.T
	var ids []uint64
	if rc.Param("mode", "") == "matrix" {
		ids = idSet(rc, 0, n)
	} else {
		ids = idSet(rc, ch.Pick(4, 0), n)
		sort.Slice(ids, func(a, b int) bool { return ids[a] < ids[b] })
	}
	s := NewSched(rc, SchedCfg{StayBias: 0.5, MaxSteps: 20000})
	defer s.Close()
	// Participant order = ascending id, initiator = lowest id, so that matrix indices address fixed roles.
	c := NewCluster(t, rc, s, ClusterCfg{IDs: ids, Order: ids})
	defer c.Close()
	parts := c.Nodes
	initiator := parts[0]
	path := "Wallet 3/victim"
	plan := func(d dkgCase) {
		from := initiator
		if d.From >= 0 {
			from = parts[d.From]
		}
		c.Net.Plan[msgID(from, parts[d.To], d.Kind, path, 0)] = d.Fault
	}
	plan(dc)
	desc := dc.String()
	if second != nil {
		plan(*second)
		desc += " + " + second.String()
	}
	if rc.Param("mode", "") != "matrix" && n >= 3 && ch.Pick(4, 0) == 3 {
		// Partition: one participant is unreachable for a whole phase (every message of that kind to it is lost).
		victim := 1 + ch.Pick(n-1, 0)
		kind := []string{"prepare", "execute", "contribute"}[ch.Pick(3, 0)]
		for _, from := range parts {
			c.Net.Plan[msgID(from, parts[victim], kind, path, 0)] = "lost"
		}
		desc += fmt.Sprintf(" + partition(%s unreachable for %s)", parts[victim].Name, kind)
		rc.Stats.Inc("fault_partition", 1)
	}
	rc.Stats.Seen("cases", desc)
	rc.Sample = map[string]any{"case": desc, "ids": fmt.Sprint(ids), "matrix_size": len(m)}
	out := c.spawnGenerate(initiator, "client1", path, uint32(th), uint32(n))
	outcome := s.Run()
	if outcome != "done" || !out.Done {
		rc.Stats.Inc("outcome_"+outcome, 1)
		rc.Truncated = outcome == "truncated"
		return
	}
	fired := 0
	for k, v := range c.Net.Fired {
		rc.Stats.Inc("fault_"+k, int64(v))
		fired += v
	}
	rc.Logf("%s -> %v %q; messages=%v", desc, out.State, out.Message, c.Net.CanonicalLog())
	if fired == 0 {
		rc.Stats.Inc("matrix_fault_not_reached", 1)
		rc.Violate("HARNESS", "planned-fault-not-reached", desc, s.Step)
		return
	}
	if p := c.anyPanic(); p != "" {
		rc.Violate("C13", "instance-crashed", fmt.Sprintf("%s: %s", desc, p), s.Step)
		return
	}
	// A second planned fault may be unreachable because the first one ends the generation early.
	dupOnly := true
	for k := range c.Net.Fired {
		// A message arriving twice (identical, or the second time altered, after the genuine one was accepted) may
		// legitimately leave the generation intact.
		if (len(k) < 10 || k[len(k)-10:] != ":duplicate") && !strings.Contains(k, ":redelivered-") {
			dupOnly = false
		}
	}
	s.Direct(func() {
		if out.State == pb.ResponseState_SUCCEEDED {
			if !dupOnly {
				rc.Violate("C13", "generation-succeeded-despite-fault", fmt.Sprintf("%s: the client was told the generation succeeded", desc), s.Step)
				return
			}
			// Duplicate delivery is legal on a real network: a success must be a fully consistent one.
			c.checkGenerated("C13", path, uint32(th), parts, out, s.Step)
			rc.Stats.Inc("duplicate_delivery_succeeded", 1)
		} else {
			c.noAccountAnywhere("C13", path, desc, s.Step)
			rc.Stats.Inc("failed_generations", 1)
		}
	})
	if len(rc.Viol) > 0 {
		return
	}
	// Liveness once faults stop: a generation under another name succeeds.
	out2 := c.spawnGenerate(initiator, "client1", "Wallet 3/after", uint32(th), uint32(n))
	if o := s.Run(); o != "done" || !out2.Done {
		rc.Truncated = o == "truncated"
		return
	}
	if p := c.anyPanic(); p != "" {
		rc.Violate("C13", "instance-crashed", fmt.Sprintf("after %s: %s", desc, p), s.Step)
		return
	}
	if out2.State != pb.ResponseState_SUCCEEDED {
		// Progress once faults stop is what the simulator is expected to look at, but C13 itself does not
		// promise it: report it as inconclusive (exit 2), not as a violation of C13.
		rc.Violate("HARNESS", "no-recovery-after-failed-generation", fmt.Sprintf("after %s a fault-free generation under another name failed: %s", desc, out2.Message), s.Step)
		return
	}
	rc.Stats.Inc("recovery_generations", 1)
	s.Direct(func() { c.checkGenerated("C13", "Wallet 3/after", uint32(th), parts, out2, s.Step) })
}

// runDKGSameNameRace: no message fault at all - two clients ask two instances for the same account name at the same
// time (the second one asks again when it is refused), either initiator slow at a round boundary.  A generation that is
// reported as failed has created nothing: when both clients are told their generation failed, no instance holds the
// account; a client that is told it succeeded holds a fully consistent key.
func runDKGSameNameRace(t *testing.T, rc *RunCtx) {
	ch := rc.Ch
	n := 2 + ch.Pick(3, 0)
	th := n/2 + 1 + ch.Pick(n-n/2, 0)
	thB := th
	if n/2+1 < n {
		thB = n/2 + 1 + (th-n/2)%(n-n/2)
	}
	ids := idSet(rc, 0, n)
	s := NewSched(rc, SchedCfg{StayBias: []float64{0, 0.5}[ch.Pick(2, 0)], MaxSteps: 40000})
	defer s.Close()
	c := NewCluster(t, rc, s, ClusterCfg{IDs: ids, Order: ids})
	defer c.Close()
	path := "Wallet 3/contested"
	a := c.spawnGenerate(c.Nodes[ch.Pick(n, 0)], "client1", path, uint32(th), uint32(n))
	b := c.spawnGenerateRetrying(c.Nodes[ch.Pick(n, 0)], "client2", path, uint32(thB), uint32(n), 1+ch.Pick(3, 0))
	round := []string{"prepare", "execute", "commit"}[ch.Pick(3, 0)]
	s.StallWhen(a.task, func(p *Park) bool { return p.Kind == KSend && p.Label == round }, 4+ch.Pick(20*n, 0))
	desc := fmt.Sprintf("two generations of one name at once n%d t%d/%d, first initiator slow before its %s round", n, th, thB, round)
	rc.Stats.Seen("cases", desc)
	rc.Sample = map[string]any{"case": desc}
	if o := s.Run(); o != "done" || !a.Done || !b.Done {
		rc.Truncated = o == "truncated"
		return
	}
	if p := c.anyPanic(); p != "" {
		rc.Violate("C13", "instance-crashed", fmt.Sprintf("%s: %s", desc, p), s.Step)
		return
	}
	rc.Stats.Inc("same_name_races", 1)
	rc.Logf("%s -> first %v %q, second %v %q", desc, a.State, a.Message, b.State, b.Message)
	s.Direct(func() {
		okA, okB := a.State == pb.ResponseState_SUCCEEDED, b.State == pb.ResponseState_SUCCEEDED
		switch {
		case okA && !okB:
			c.checkGenerated("C13", path, uint32(th), c.Nodes, a, s.Step)
		case okB && !okA:
			c.checkGenerated("C13", path, uint32(thB), c.Nodes, b, s.Step)
		case !okA && !okB:
			c.noAccountAnywhere("C13", path, desc+": both clients were told their generation failed", s.Step)
			rc.Stats.Inc("failed_generations", 1)
		default:
			rc.Violate("C13", "two-generations-of-one-name-both-succeeded", desc, s.Step)
		}
	})
}

func init() {
	propRunners["C13"] = func(t *testing.T, rc *RunCtx) {
		if rc.Param("mode", "") == "realnet" {
			runRealNet(t, rc, "C13")
			return
		}
		runDKGFaults(t, rc)
	}
}
