//go:build go1.25

package sim

import (
	"testing"
	"testing/synctest"
)

// haveBubble: this build can run code inside a synctest bubble (fake clock, quiescence detection).
const haveBubble = true

func bubbleWait() { synctest.Wait() }

func bubbleTest(t *testing.T, body func(*testing.T)) { synctest.Test(t, body) }
