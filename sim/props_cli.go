package sim

import (
	"bytes"
	"context"
	"encoding/gob"
	"encoding/hex"
	"encoding/json"
	"fmt"
	"os"
	"os/exec"
	"path/filepath"
	"regexp"
	"strconv"
	"strings"
	"testing"
)

// W3: the real dirk binary, driven as a sequence of short-lived processes on one storage directory.

const genesisRoot = "0x04700007fabc8282644aed6d1c7c9e21d38a03a0c4ba193f3afe428824b3a673"

func dirkBinary(t *testing.T) string {
	p := os.Getenv("VERIF_DIRK")
	if p == "" {
		t.Fatalf("VERIF_DIRK is not set (bin/check builds the dirk binary for this property)")
	}
	return p
}

// dirkCLI runs one dirk command on a storage directory.
func dirkCLI(t *testing.T, dir string, extraEnv []string, args ...string) (int, string, string) {
	cmd := exec.Command(dirkBinary(t), args...)
	cmd.Env = append([]string{"DIRK_SERVER_NAME=verif", "DIRK_STORAGE_PATH=" + dir, "HOME=" + ScratchRoot(), "PATH=/usr/bin:/bin"}, extraEnv...)
	cmd.Dir = ScratchRoot()
	var so, se bytes.Buffer
	cmd.Stdout, cmd.Stderr = &so, &se
	err := cmd.Run()
	code := 0
	if err != nil {
		if ee, ok := err.(*exec.ExitError); ok {
			code = ee.ExitCode()
		} else {
			t.Fatalf("dirk: %v", err)
		}
	}
	return code, so.String(), se.String()
}

type icBlock struct {
	Slot string `json:"slot"`
}
type icAtt struct {
	Source string `json:"source_epoch"`
	Target string `json:"target_epoch"`
}
type icData struct {
	PubKey string    `json:"pubkey"`
	Blocks []icBlock `json:"signed_blocks,omitempty"`
	Atts   []icAtt   `json:"signed_attestations,omitempty"`
}
type icMeta struct {
	Version string `json:"interchange_format_version"`
	Root    string `json:"genesis_validators_root"`
}
type icFile struct {
	Meta *icMeta  `json:"metadata"`
	Data []icData `json:"data"`
}

// cliExport runs dirk --export-slashing-protection and parses the result, keyed by key name.
func cliExport(t *testing.T, pop *Population, dir string) (map[string]Watermark, int, string) {
	code, out, errOut := dirkCLI(t, dir, nil, "--export-slashing-protection", "--genesis-validators-root="+genesisRoot)
	if code != 0 {
		return nil, code, errOut
	}
	var f icFile
	if err := json.Unmarshal([]byte(out), &f); err != nil {
		return nil, -1, "unparseable export: " + err.Error() + ": " + out
	}
	res := map[string]Watermark{}
	for _, d := range f.Data {
		kb, err := hex.DecodeString(strings.TrimPrefix(d.PubKey, "0x"))
		if err != nil {
			return nil, -1, "bad key in export"
		}
		w := NoWatermark
		for _, b := range d.Blocks {
			v, _ := strconv.ParseInt(b.Slot, 10, 64)
			w.Slot = v
		}
		for _, a := range d.Atts {
			w.Src, _ = strconv.ParseInt(a.Source, 10, 64)
			w.Tgt, _ = strconv.ParseInt(a.Target, 10, 64)
		}
		res[pop.KeyName(kb)] = w
	}
	return res, 0, ""
}

// openDirect opens an instance on dir for sequential (direct) use outside any bubble.
func openDirect(t *testing.T, rc *RunCtx, s *Sched, pop *Population, dir string) *Instance {
	inst, err := NewInstance(s, "cli", InstCfg{Dir: dir, Pop: pop, Permissions: FullPermissions("client1"), AdminIPs: nil})
	if err != nil {
		t.Fatalf("open instance on %s: %v", dir, err)
	}
	return inst
}

func maxW(a, b Watermark) Watermark {
	if b.Src > a.Src {
		a.Src = b.Src
	}
	if b.Tgt > a.Tgt {
		a.Tgt = b.Tgt
	}
	if b.Slot > a.Slot {
		a.Slot = b.Slot
	}
	return a
}

func decreased(before, after map[string]Watermark) string {
	for k, b := range before {
		a, ok := after[k]
		if !ok {
			a = NoWatermark
		}
		if a.Src < b.Src || a.Tgt < b.Tgt || a.Slot < b.Slot {
			return fmt.Sprintf("key %s went from %v to %v", k, b, a)
		}
	}
	return ""
}

// runImport is the body of C10.
// runImportBulk: one interchange file with records for tens of thousands of validators (more than a hundred thousand
// records in all) is imported into an empty database by the real binary; every key of the file must then be covered.
func runImportBulk(t *testing.T, rc *RunCtx) {
	ch := rc.Ch
	pop := StdPopulation(t)
	dir := NewRunDir(t)
	n := 80000 + ch.Pick(20000, 0)
	type rec struct{ slot, src, tgt int64 }
	want := make(map[string]rec, n)
	var sb strings.Builder
	sb.Grow(n * 260)
	fmt.Fprintf(&sb, `{"metadata":{"interchange_format_version":"5","genesis_validators_root":%q},"data":[`, genesisRoot)
	for i := 0; i < n; i++ {
		key := append(h32("bulk key", rc.Seed, i), h32("bulk key tail", rc.Seed, i)[:16]...)
		r := rec{int64(1 + ch.Pick(1000, 0)), int64(ch.Pick(500, 0)), 0}
		r.tgt = r.src + 1 + int64(i%7)
		if i > 0 {
			sb.WriteByte(',')
		}
		hk := hex.EncodeToString(key)
		switch i % 5 {
		case 3: // only blocks
			r.src, r.tgt = -1, -1
			fmt.Fprintf(&sb, `{"pubkey":"0x%s","signed_blocks":[{"slot":"%d"}]}`, hk, r.slot)
		case 4: // only attestations
			r.slot = -1
			fmt.Fprintf(&sb, `{"pubkey":"0x%s","signed_attestations":[{"source_epoch":"%d","target_epoch":"%d"}]}`, hk, r.src, r.tgt)
		default:
			fmt.Fprintf(&sb, `{"pubkey":"0x%s","signed_blocks":[{"slot":"%d"}],"signed_attestations":[{"source_epoch":"%d","target_epoch":"%d"}]}`, hk, r.slot, r.src, r.tgt)
		}
		want[pop.KeyName(key)] = r
	}
	sb.WriteString("]}")
	path := filepath.Join(ScratchRoot(), fmt.Sprintf("bulk-%d.json", dirCounter))
	dirCounter++
	if err := os.WriteFile(path, []byte(sb.String()), 0o600); err != nil {
		t.Fatalf("write: %v", err)
	}
	defer os.Remove(path)
	code, _, stderr := dirkCLI(t, dir, nil, "--import-slashing-protection", "--genesis-validators-root="+genesisRoot, "--slashing-protection-file="+path)
	rc.Stats.Inc("bulk_imports", 1)
	rc.Stats.Inc("bulk_import_keys", int64(n))
	rc.Stats.Seen("cases", fmt.Sprintf("bulk/%d/%d", n, rc.Seed))
	rc.Sample = map[string]any{"layer": "bulk import", "keys": n, "exit": code}
	if code != 0 {
		rc.Stats.Inc("imports_rejected", 1)
		rc.Logf("bulk import of %d keys: exit %d: %s", n, code, truncate(stderr, 300))
		return
	}
	after, c2, m2 := cliExport(t, pop, dir)
	if c2 != 0 {
		rc.Violate("C10", "store-unusable-after-import", m2, 0)
		return
	}
	missing := 0
	example := ""
	for k, r := range want {
		got, ok := after[k]
		if !ok {
			got = NoWatermark
		}
		if got.Slot < r.slot || got.Src < r.src || got.Tgt < r.tgt {
			missing++
			if example == "" {
				example = fmt.Sprintf("key %s: file says slot %d, attestation %d>%d; recorded %v", k, r.slot, r.src, r.tgt, got)
			}
		}
	}
	if missing > 0 {
		rc.Violate("C10", "import-dropped-protection", fmt.Sprintf("an import of %d keys reported success but %d of them are not covered afterwards, e.g. %s", n, missing, example), 0)
		return
	}
	// Second file, into the database that now holds all those records: the same validators (every k-th of them) with
	// lower values throughout.  Nothing recorded may go down.
	step := 1 + ch.Pick(7, 0)
	var sb2 strings.Builder
	fmt.Fprintf(&sb2, `{"metadata":{"interchange_format_version":"5","genesis_validators_root":%q},"data":[`, genesisRoot)
	m := 0
	for i := 0; i < n; i += step {
		key := append(h32("bulk key", rc.Seed, i), h32("bulk key tail", rc.Seed, i)[:16]...)
		if m > 0 {
			sb2.WriteByte(',')
		}
		m++
		fmt.Fprintf(&sb2, `{"pubkey":"0x%s","signed_blocks":[{"slot":"0"}],"signed_attestations":[{"source_epoch":"0","target_epoch":"0"}]}`, hex.EncodeToString(key))
	}
	sb2.WriteString("]}")
	if err := os.WriteFile(path, []byte(sb2.String()), 0o600); err != nil {
		t.Fatalf("write: %v", err)
	}
	code, _, _ = dirkCLI(t, dir, nil, "--import-slashing-protection", "--genesis-validators-root="+genesisRoot, "--slashing-protection-file="+path)
	rc.Stats.Inc("bulk_imports_over_a_large_database", 1)
	after2, c3, m3 := cliExport(t, pop, dir)
	if c3 != 0 {
		rc.Violate("C10", "store-unusable-after-import", m3, 1)
		return
	}
	lowered := 0
	for k, r := range want {
		got, ok := after2[k]
		if !ok {
			got = NoWatermark
		}
		if got.Slot < r.slot || got.Src < r.src || got.Tgt < r.tgt {
			lowered++
			if example == "" {
				example = fmt.Sprintf("key %s: was slot %d, attestation %d>%d; now %v", k, r.slot, r.src, r.tgt, got)
			}
		}
	}
	if lowered > 0 {
		rc.Violate("C10", "import-lowered-a-record", fmt.Sprintf("a second import (exit %d) naming %d of the %d validators of the database with lower values lowered %d records, e.g. %s", code, m, n, lowered, example), 1)
	}
}

func runImport(t *testing.T, rc *RunCtx) {
	if rc.Param("mode", "") == "bulk" {
		runImportBulk(t, rc)
		return
	}
	if rc.Param("mode", "") == "daemon" {
		runDaemonInterchange(t, rc, "C10")
		return
	}
	InitBLS()
	ch := rc.Ch
	pop := StdPopulation(t)
	s := NewSched(rc, SchedCfg{})
	defer s.Close()
	dir := NewRunDir(t)
	nKeys := 1 + ch.Pick(4, 0)
	uniq := uint64(0)
	// Prior history through the real signer.
	own := map[string]Watermark{}
	inst := openDirect(t, rc, s, pop, dir)
	legacyHistory := ch.Pick(3, 0) == 2
	for k := 0; k < nKeys; k++ {
		kn := pop.Accts[k].KName
		own[kn] = NoWatermark
		if ch.Pick(4, 0) == 0 {
			continue // this key has no history in the database
		}
		if legacyHistory && ch.Pick(2, 0) == 1 {
			// This key's records were written by an older release (gob encoding) and not touched since.
			st := inst.Rules.VerifStore()
			src := int64(ch.Pick(20, 0))
			tgt := src + 1 + int64(ch.Pick(20, 0))
			slot := int64(ch.Pick(40, 0))
			w := own[kn]
			if ch.Pick(3, 0) > 0 {
				if err := st.Store(context.Background(), storeKey(pop.Accts[k].PubKey, 2), gobBytes(legacyAtt{src, tgt})); err != nil {
					t.Fatalf("store: %v", err)
				}
				w.Src, w.Tgt = src, tgt
			}
			if ch.Pick(3, 0) > 0 {
				if err := st.Store(context.Background(), storeKey(pop.Accts[k].PubKey, 3), gobBytes(legacyProp{slot})); err != nil {
					t.Fatalf("store: %v", err)
				}
				w.Slot = slot
			}
			own[kn] = w
			rc.Stats.Inc("keys_with_old_format_history", 1)
			continue
		}
		if ch.Pick(3, 0) > 0 {
			src := uint64(ch.Pick(20, 0))
			tgt := src + 1 + uint64(ch.Pick(20, 0))
			uniq++
			if (&Op{Kind: "att", Client: "client1", Entries: []Entry{AttEntry(k, src, tgt, uniq)}}).Exec(inst).OK(0) {
				w := own[kn]
				w.Src, w.Tgt = int64(src), int64(tgt)
				own[kn] = w
			}
		}
		if ch.Pick(3, 0) > 0 {
			slot := uint64(ch.Pick(40, 0))
			uniq++
			if (&Op{Kind: "prop", Client: "client1", Entries: []Entry{PropEntry(k, slot, uniq)}}).Exec(inst).OK(0) {
				w := own[kn]
				w.Slot = int64(slot)
				own[kn] = w
			}
		}
	}
	inst.Close()
	protected := map[string]Watermark{} // per key: maxima over own history and every successfully imported file
	for k, v := range own {
		protected[k] = v
	}
	var desc []string
	nImports := 1 + ch.Pick(3, 0)
	for imp := 0; imp < nImports && len(rc.Viol) == 0; imp++ {
		before, code, msg := cliExport(t, pop, dir)
		if code != 0 {
			rc.Violate("HARNESS", "export-failed", msg, imp)
			return
		}
		// Build an interchange file.
		f := icFile{Meta: &icMeta{Version: "5", Root: genesisRoot}}
		badMeta := ""
		switch ch.Pick(10, 0) {
		case 7:
			f.Meta.Version, badMeta = "4", "version"
		case 8:
			f.Meta.Root, badMeta = "0x"+strings.Repeat("ab", 32), "root"
		case 9:
			f.Meta.Root, badMeta = strings.ToUpper(genesisRoot[2:]), "root-form"
		}
		fileMax := map[string]Watermark{}
		malformed := false
		num := func(base int64) string {
			switch ch.Pick(40, 0) {
			case 37:
				malformed = true
				return "abc"
			case 38:
				malformed = true
				return "1e3"
			case 39:
				malformed = true
				return "99999999999999999999999"
			}
			v := base + int64(ch.Pick(9, 0)) - 4
			if v < 0 {
				v = 0
			}
			switch ch.Pick(14, 0) {
			case 12, 13: // far beyond 2^53 (no longer exact as a floating-point number), below 2^63
				rc.Stats.Inc("probe_numbers_beyond_2_53", 1)
				return strconv.FormatInt(1<<62+int64(ch.Pick(4000, 0))+v, 10)
			case 10: // decimal with leading zeros: still that decimal number
				rc.Stats.Inc("probe_zero_padded_numbers", 1)
				return strings.Repeat("0", 1+ch.Pick(3, 0)) + strconv.FormatInt(v, 10)
			case 11: // a larger zero-padded value made of the digits 0-7 only
				rc.Stats.Inc("probe_zero_padded_numbers", 1)
				v = v*8 + 64
				return "0" + strconv.FormatInt(v, 8) // the decimal number spelled with these digits
			}
			return strconv.FormatInt(v, 10)
		}
		nData := 1 + ch.Pick(5, 0)
		for d := 0; d < nData; d++ {
			k := ch.Pick(nKeys, 0) // repeats of a key across entries happen naturally
			a := pop.Accts[k]
			kn := a.KName
			keyHex := "0x" + hex.EncodeToString(a.PubKey)
			switch ch.Pick(24, 0) {
			case 20, 21:
				keyHex = hex.EncodeToString(a.PubKey) // unprefixed
			case 22:
				keyHex = "0x" + strings.ToUpper(hex.EncodeToString(a.PubKey))
			case 23:
				keyHex, malformed = "0xzz"+hex.EncodeToString(a.PubKey)[4:], true
			}
			e := icData{PubKey: keyHex}
			base := protected[kn]
			fm := NoWatermark
			if cur, ok := fileMax[kn]; ok {
				fm = cur
			}
			for i, n := 0, ch.Pick(3, 0); i < n; i++ {
				sl := num(max(base.Slot, 3))
				e.Blocks = append(e.Blocks, icBlock{Slot: sl})
				if v, err := strconv.ParseInt(sl, 10, 64); err == nil && v >= 0 {
					fm = maxW(fm, Watermark{-1, -1, v})
				}
			}
			for i, n := 0, ch.Pick(3, 0); i < n; i++ {
				so, ta := num(max(base.Src, 3)), num(max(base.Tgt, 5))
				e.Atts = append(e.Atts, icAtt{Source: so, Target: ta})
				sv, err1 := strconv.ParseInt(so, 10, 64)
				tv, err2 := strconv.ParseInt(ta, 10, 64)
				if err1 == nil && err2 == nil && sv >= 0 && tv >= 0 {
					fm = maxW(fm, Watermark{sv, tv, -1})
				}
			}
			fileMax[kn] = fm
			f.Data = append(f.Data, e)
		}
		body, _ := json.Marshal(f)
		if ch.Pick(6, 0) == 5 {
			// Numbers written as bare JSON numbers instead of strings (some tools do): refused, or understood exactly.
			body = reQuotedNumber.ReplaceAll(body, []byte(`"$1":$2`))
			rc.Stats.Inc("probe_files_with_bare_numbers", 1)
		}
		path := filepath.Join(ScratchRoot(), fmt.Sprintf("ic-%d-%d.json", dirCounter, imp))
		dirCounter++
		if err := os.WriteFile(path, body, 0o600); err != nil {
			t.Fatalf("write: %v", err)
		}
		defer os.Remove(path)
		// Optionally kill the import at a drawn storage point first, then run it again.
		if ch.Pick(5, 0) == 4 {
			killAt := 1 + ch.Pick(12, 0)
			code, _, _ := dirkCLI(t, dir, []string{"VERIF_HOOK_KILL_AT=" + strconv.Itoa(killAt)}, "--import-slashing-protection", "--genesis-validators-root="+genesisRoot, "--slashing-protection-file="+path)
			rc.Stats.Inc("fault_import_killed_at_storage_point", 1)
			rc.Logf("import %d killed at storage point %d: exit %d", imp, killAt, code)
			mid, c2, m2 := cliExport(t, pop, dir)
			if c2 != 0 {
				rc.Violate("C10", "store-unusable-after-killed-import", m2, imp)
				return
			}
			if d := decreased(before, mid); d != "" {
				rc.Violate("C10", "import-lowered-a-record", "killed import: "+d, imp)
				return
			}
		}
		// A fifth of the imports meet a storage fault: the N-th storage operation of the importing process fails (or
		// that one and all later ones - a disk that stays full).  Whatever the process then says is judged as usual:
		// an import that reports success has to have recorded everything the file holds.
		var faultEnv []string
		if ch.Pick(5, 0) == 3 {
			fa := strconv.Itoa(1 + ch.Pick(12, 0))
			if ch.Pick(2, 0) == 1 {
				fa += "+"
			}
			faultEnv = []string{"VERIF_HOOK_FAIL_AT=" + fa}
			rc.Stats.Inc("fault_import_storage_operation_failed", 1)
			rc.Logf("import %d runs with %s", imp, faultEnv[0])
		}
		code, stdout, stderr := dirkCLI(t, dir, faultEnv, "--import-slashing-protection", "--genesis-validators-root="+genesisRoot, "--slashing-protection-file="+path)
		if faultEnv != nil && code == 0 {
			rc.Stats.Inc("imports_succeeded_despite_configured_storage_fault", 1) // the fault index lay beyond the import's last operation, or the failing operation did not matter
		}
		after, c2, m2 := cliExport(t, pop, dir)
		if c2 != 0 {
			rc.Violate("C10", "store-unusable-after-import", m2, imp)
			return
		}
		desc = append(desc, fmt.Sprintf("import(%s bad-meta=%q malformed=%v)=exit %d", truncate(string(body), 300), badMeta, malformed, code))
		rc.Logf("import %d: exit %d stdout=%q stderr=%q file=%s before=%s after=%s", imp, code, truncate(stdout, 200), truncate(stderr, 200), truncate(string(body), 600), ExportString(before), ExportString(after))
		rc.Stats.Seen("cases", hexShort(h32(string(body), ExportString(before))))
		if d := decreased(before, after); d != "" {
			rc.Violate("C10", "import-lowered-a-record", fmt.Sprintf("exit %d: %s", code, d), imp)
			return
		}
		if badMeta != "" {
			rc.Stats.Inc("imports_with_wrong_metadata", 1)
			if code == 0 {
				rc.Violate("C10", "wrong-metadata-accepted", fmt.Sprintf("file with wrong %s exited 0", badMeta), imp)
				return
			}
			if ExportString(trimEmpty(before)) != ExportString(trimEmpty(after)) {
				rc.Violate("C10", "wrong-metadata-changed-state", fmt.Sprintf("before %s after %s", ExportString(before), ExportString(after)), imp)
				return
			}
			continue
		}
		if code != 0 {
			rc.Stats.Inc("imports_rejected", 1)
			continue
		}
		rc.Stats.Inc("imports_succeeded", 1)
		for k, v := range fileMax {
			protected[k] = maxW(protected[k], v)
		}
		// After a successful import the database must cover own history and the file, field by field.
		for k, want := range protected {
			got, ok := after[k]
			if !ok {
				got = NoWatermark
			}
			if got.Slot < want.Slot || got.Tgt < want.Tgt || got.Src < want.Src {
				rc.Violate("C10", "import-dropped-protection", fmt.Sprintf("after a successful import key %s is recorded as %v but its history and the imported files require at least %v", k, got, want), imp)
				return
			}
		}
	}
	if len(rc.Viol) > 0 {
		return
	}
	// Behavioural probes on a restarted instance: everything at or below what is protected is refused.
	inst = openDirect(t, rc, s, pop, dir)
	defer inst.Close()
	for k := 0; k < nKeys; k++ {
		kn := pop.Accts[k].KName
		w := protected[kn]
		if w.Slot >= 0 {
			uniq++
			if (&Op{Kind: "prop", Client: "client1", Entries: []Entry{PropEntry(k, uint64(w.Slot), uniq)}}).Exec(inst).OK(0) {
				rc.Violate("C10", "conflicting-proposal-signed-after-import", fmt.Sprintf("key %s: proposal at slot %d signed although slot %d is in its history or an imported file", kn, w.Slot, w.Slot), 99)
			}
			rc.Stats.Inc("probes", 1)
		}
		if w.Tgt >= 0 {
			uniq++
			src := uint64(max(w.Src, 0))
			if (&Op{Kind: "att", Client: "client1", Entries: []Entry{AttEntry(k, min(src, uint64(w.Tgt)), uint64(w.Tgt), uniq)}}).Exec(inst).OK(0) {
				rc.Violate("C10", "conflicting-attestation-signed-after-import", fmt.Sprintf("key %s: attestation with target %d signed although that target is in its history or an imported file", kn, w.Tgt), 99)
			}
			rc.Stats.Inc("probes", 1)
		}
		if w.Src > 0 {
			uniq++
			if (&Op{Kind: "att", Client: "client1", Entries: []Entry{AttEntry(k, uint64(w.Src-1), uint64(max(w.Tgt, w.Src))+3, uniq)}}).Exec(inst).OK(0) {
				rc.Violate("C10", "conflicting-attestation-signed-after-import", fmt.Sprintf("key %s: attestation with source %d signed although source %d is in its history or an imported file", kn, w.Src-1, w.Src), 99)
			}
			rc.Stats.Inc("probes", 1)
		}
	}
	rc.Sample = map[string]any{"keys": nKeys, "own_history": fmt.Sprint(own), "imports": desc}
}

// --- C11 -------------------------------------------------------------------------------------

type legacyAtt struct {
	SourceEpoch int64
	TargetEpoch int64
}
type legacyProp struct {
	Slot int64
}

func gobBytes(v any) []byte {
	var buf bytes.Buffer
	if err := gob.NewEncoder(&buf).Encode(v); err != nil {
		panic(err)
	}
	return buf.Bytes()
}

// probeSeq sends the same probe requests to an instance and returns the verdict vector.
func probeSeq(inst *Instance, probes []*Op) []bool {
	out := make([]bool, len(probes))
	for i, p := range probes {
		cp := *p
		out[i] = cp.Exec(inst).OK(0)
	}
	return out
}

var reQuotedNumber = regexp.MustCompile(`"(slot|source_epoch|target_epoch)":"([0-9]+)"`)

// runExport is the body of C11.
func runExport(t *testing.T, rc *RunCtx) {
	if rc.Param("mode", "") == "daemon" {
		runDaemonInterchange(t, rc, "C11")
		return
	}
	InitBLS()
	ch := rc.Ch
	pop := StdPopulation(t)
	nKeys := 1 + ch.Pick(4, 0)
	many := ch.Pick(8, 0) == 7
	if many {
		// A database with well over a hundred records (every key attests and proposes).
		pop = BigPopulation(t)
		nKeys = 55 + ch.Pick(80, 0)
		rc.Stats.Inc("many_key_runs", 1)
	}
	s := NewSched(rc, SchedCfg{})
	defer s.Close()
	dir := NewRunDir(t)
	uniq := uint64(0)
	want := map[string]Watermark{}
	legacy := ch.Pick(3, 0) == 2
	inst := openDirect(t, rc, s, pop, dir)
	var desc []string
	if legacy {
		// Records written in the older on-disk format (gob), of drawn values incl. zeros, mixed with none.
		st := inst.Rules.VerifStore()
		for k := 0; k < nKeys; k++ {
			a := pop.Accts[k]
			w := NoWatermark
			if ch.Pick(4, 0) > 0 {
				src := int64(ch.Pick(6, 0))
				tgt := src + int64(ch.Pick(6, 0))
				if err := st.Store(context.Background(), storeKey(a.PubKey, 2), gobBytes(legacyAtt{src, tgt})); err != nil {
					t.Fatalf("store: %v", err)
				}
				w.Src, w.Tgt = src, tgt
			}
			if ch.Pick(4, 0) > 0 {
				slot := int64(ch.Pick(6, 0))
				if err := st.Store(context.Background(), storeKey(a.PubKey, 3), gobBytes(legacyProp{slot})); err != nil {
					t.Fatalf("store: %v", err)
				}
				w.Slot = slot
			}
			want[a.KName] = w
			desc = append(desc, fmt.Sprintf("legacy %s=%v", a.KName, w))
		}
		rc.Stats.Inc("legacy_format_runs", 1)
	}
	// Sometimes the database also holds a few thousand records of keys this instance has no account for
	// (validators moved elsewhere): they are part of what an export must state.
	foreign := map[string]Watermark{}
	if ch.Pick(10, 0) == 9 {
		st := inst.Rules.VerifStore()
		nf := 600 + ch.Pick(2400, 0)
		for i := 0; i < nf; i++ {
			kb := make([]byte, 48)
			copy(kb, h32("foreign key", i, rc.Seed))
			copy(kb[32:], h32("foreign key tail", i))
			w := Watermark{Src: int64(i % 7), Tgt: int64(i%7 + 1 + i%3), Slot: int64(i % 11)}
			if err := st.Store(context.Background(), storeKey(kb, 2), gobBytes(legacyAtt{w.Src, w.Tgt})); err != nil {
				t.Fatalf("store: %v", err)
			}
			if i%5 != 0 {
				if err := st.Store(context.Background(), storeKey(kb, 3), gobBytes(legacyProp{w.Slot})); err != nil {
					t.Fatalf("store: %v", err)
				}
			} else {
				w.Slot = -1
			}
			foreign[pop.KeyName(kb)] = w
		}
		rc.Stats.Inc("runs_with_thousands_of_records", 1)
		desc = append(desc, fmt.Sprintf("%d foreign keys", nf))
	}
	// A history of well-formed requests (some refused); the expectation follows the reference model.
	model := NewModelState(len(pop.Accts))
	for k := 0; k < nKeys; k++ {
		if w, ok := want[pop.Accts[k].KName]; ok {
			model.W[k] = w
		}
	}
	ledger := NewLedger()
	nOps := ch.Pick(14, 0)
	if !legacy {
		nOps += 2
	}
	if many {
		// Every key signs one attestation and one proposal at its own height first.
		for k := 0; k < nKeys; k++ {
			uniq++
			oa := &Op{Kind: "att", Client: "client1", Entries: []Entry{AttEntry(k, uint64(k), uint64(k+1), uniq)}}
			uniq++
			op := &Op{Kind: "prop", Client: "client1", Entries: []Entry{PropEntry(k, uint64(1000+k), uniq)}}
			for _, o := range []*Op{oa, op} {
				r := o.Exec(inst)
				if w := model.Apply(o); w[0] != r.OK(0) {
					rc.Violate("C09", "verdict-differs-from-reference", fmt.Sprintf("%s: reference %v, Dirk %v", o, w, r.States), k)
				}
			}
		}
	}
	for i := 0; i < nOps; i++ {
		k := ch.Pick(nKeys, 0)
		var o *Op
		uniq++
		if ch.Pick(3, 0) == 2 {
			slot := uint64(max(model.W[k].Slot, 0)) + uint64(ch.Pick(4, 0))
			o = &Op{Kind: "prop", Client: "client1", Entries: []Entry{PropEntry(k, slot, uniq)}}
		} else {
			e := attFor(rc, k, model.W[k], uniq)
			if e.Tgt > 1<<40 {
				e = AttEntry(k, uint64(max(model.W[k].Src, 0)), uint64(max(model.W[k].Tgt, 0))+1, uniq)
			}
			o = &Op{Kind: "att", Client: "client1", Entries: []Entry{e}}
			if ch.Pick(3, 0) == 2 {
				// through the batch path, together with another key
				k2 := (k + 1) % len(pop.Accts)
				uniq++
				e2 := attFor(rc, k2, model.W[k2], uniq)
				if e2.Tgt > 1<<40 {
					e2 = AttEntry(k2, uint64(max(model.W[k2].Src, 0)), uint64(max(model.W[k2].Tgt, 0))+1, uniq)
				}
				o = &Op{Kind: "atts", Client: "client1", Entries: []Entry{e, e2}}
			}
		}
		r := o.Exec(inst)
		wantOK := model.Apply(o)
		Monitor(rc, ledger, pop, o, r, i, false)
		for j := range wantOK {
			if wantOK[j] != r.OK(j) {
				p, key := "C11", "old-format-record-not-honoured"
				if !legacy {
					p, key = "C09", "verdict-differs-from-reference"
				}
				rc.Violate(p, key, fmt.Sprintf("%s position %d: reference (starting from the stored records %v) says signed=%v, Dirk says %v", o, j, want, wantOK[j], r.States), i)
			}
		}
		desc = append(desc, fmt.Sprintf("%s->%v", o, r.States))
	}
	expect := map[string]Watermark{}
	for k := range pop.Accts {
		if model.W[k] != NoWatermark {
			expect[pop.Accts[k].KName] = model.W[k]
		}
	}
	for k, w := range foreign {
		expect[k] = w
	}
	if len(rc.Viol) > 0 {
		inst.Close()
		return
	}
	// 1. Export through the rules API states exactly the highest values.
	ex, err := inst.Export()
	if err != nil {
		rc.Violate("C11", "export-failed", err.Error(), 0)
		inst.Close()
		return
	}
	cmpExport := func(how string, got map[string]Watermark) bool {
		g := trimEmpty(got)
		if ExportString(g) != ExportString(expect) {
			rc.Violate("C11", "export-not-faithful", fmt.Sprintf("%s says %s, the history implies %s", how, ExportString(g), ExportString(expect)), 0)
			return false
		}
		return true
	}
	if !cmpExport("export (rules API)", ex) {
		inst.Close()
		return
	}
	// 2. Shutdown and restart retain it (clean shutdown, or - a third of the runs - a kill: the directory is
	// copied as it is now and the copy is used from here on); 3. the CLI export agrees.
	if ch.Pick(3, 0) == 2 {
		img := NewRunDir(t)
		if err := CopyDir(dir, img); err != nil {
			t.Fatalf("copy: %v", err)
		}
		inst.Close()
		dir = img
		rc.Stats.Inc("crash_restarts", 1)
	} else {
		inst.Close()
		rc.Stats.Inc("clean_restarts", 1)
	}
	cli, code, msg := cliExport(t, pop, dir)
	if code != 0 {
		rc.Violate("C11", "cli-export-failed", msg, 0)
		return
	}
	if !cmpExport("dirk --export-slashing-protection after shutdown", cli) {
		return
	}
	// 4. Import the export into an empty instance: same decisions as the original.
	code, out, _ := dirkCLI(t, dir, nil, "--export-slashing-protection", "--genesis-validators-root="+genesisRoot)
	if code != 0 {
		rc.Violate("C11", "cli-export-failed", out, 0)
		return
	}
	file := filepath.Join(ScratchRoot(), fmt.Sprintf("export-%d.json", dirCounter))
	dirCounter++
	_ = os.WriteFile(file, []byte(out), 0o600)
	defer os.Remove(file)
	dir2 := NewRunDir(t)
	// A quarter of the runs: the first attempt of the import meets one failing storage operation.  If it says it
	// succeeded nonetheless, the new instance is held to that; otherwise the operator runs it again.
	imported := false
	if rc.Ch.Pick(4, 0) == 3 {
		fa := "VERIF_HOOK_FAIL_AT=" + strconv.Itoa(1+rc.Ch.Pick(2*nKeys+1, 0))
		code, _, _ := dirkCLI(t, dir2, []string{fa}, "--import-slashing-protection", "--genesis-validators-root="+genesisRoot, "--slashing-protection-file="+file)
		rc.Stats.Inc("fault_reimport_storage_operation_failed", 1)
		rc.Logf("first import attempt with %s: exit %d", fa, code)
		imported = code == 0
	}
	if !imported {
		if code, _, se := dirkCLI(t, dir2, nil, "--import-slashing-protection", "--genesis-validators-root="+genesisRoot, "--slashing-protection-file="+file); code != 0 {
			rc.Violate("C11", "own-export-not-importable", se, 0)
			return
		}
	}
	var probes []*Op
	for k := 0; k < nKeys; k++ {
		w := model.W[k]
		vals := []int64{0, 1, w.Slot - 1, w.Slot, w.Slot + 1}
		for _, v := range vals {
			if v >= 0 {
				uniq++
				probes = append(probes, &Op{Kind: "prop", Client: "client1", Entries: []Entry{PropEntry(k, uint64(v), uniq)}})
			}
		}
		for _, d := range [][2]int64{{0, 0}, {w.Src - 1, w.Tgt + 1}, {w.Src, w.Tgt}, {w.Src, w.Tgt + 1}, {w.Src + 1, w.Tgt + 2}, {0, 1}} {
			if d[0] >= 0 && d[1] >= 0 {
				uniq++
				probes = append(probes, &Op{Kind: "att", Client: "client1", Entries: []Entry{AttEntry(k, uint64(d[0]), uint64(d[1]), uniq)}})
			}
		}
	}
	for i := len(probes) - 1; i > 0; i-- {
		j := ch.Pick(i+1, 0)
		probes[i], probes[j] = probes[j], probes[i]
	}
	orig := openDirect(t, rc, s, pop, dir)
	copyInst := openDirect(t, rc, s, pop, dir2)
	va, vb := probeSeq(orig, probes), probeSeq(copyInst, probes)
	orig.Close()
	copyInst.Close()
	for i := range va {
		if va[i] != vb[i] {
			rc.Violate("C11", "reimported-instance-decides-differently", fmt.Sprintf("probe %s: original says signed=%v, the instance built from the export says %v (exported: %s)", probes[i], va[i], vb[i], truncate(out, 400)), i)
			return
		}
	}
	rc.Stats.Inc("probes", int64(len(probes)))
	rc.Stats.Seen("cases", hexShort(h32(desc)))
	if len(desc) > 14 {
		desc = desc[:14]
	}
	rc.Sample = map[string]any{"keys": nKeys, "legacy_records": legacy, "history": desc, "export": ExportString(expect)}
}

func init() {
	propRunners["C10"] = runImport
	propRunners["C11"] = runExport
	noBubble["C10"] = true
	noBubble["C11"] = true
}
