package sim

import (
	"fmt"
	"runtime"
	"testing"
)

// runDomains is the body of C05: every endpoint x domain class x admin-IP configuration x source address.
func runDomains(t *testing.T, rc *RunCtx) {
	if rc.Param("mode", "") == "edge" {
		runSourceEdge(t, rc)
		return
	}
	if rc.Param("mode", "") == "daemon" {
		runDaemonEdge(t, rc, "C05")
		return
	}
	ch := rc.Ch
	ipPool := []string{"10.0.0.1", "10.0.0.2", "192.168.7.9", "::1", "2001:db8::1", "fe80::1",
		"10.0.0.1 ", "10.0.0.01", "10.0.0.1:443", "10.0.0.3", "10.0.1.1", "::2", "2001:db8::2", "2001:db8:ffff:1::99", "2001:db9::1", "fe80::2", "::ffff:10.0.0.1"}
	var admin []string
	switch ch.Pick(4, 0) {
	case 1:
		admin = []string{ipPool[ch.Pick(6, 0)]}
	case 2, 3:
		for i := 0; i < 6; i++ {
			if ch.Pick(2, 0) == 1 {
				admin = append(admin, ipPool[i])
			}
		}
	}
	plan := NewFaultPlan()
	faulty := ch.Pick(4, 0) == 3
	pop := StdPopulation(t)
	s := NewSched(rc, SchedCfg{StayBias: 0.5, MaxSteps: 1 << 20})
	s.KeyName = pop.KeyName
	defer s.Close()
	inst, err := NewInstance(s, "i0", InstCfg{Dir: NewRunDir(t), Pop: pop, Permissions: FullPermissions("client1"), AdminIPs: admin, Plan: plan})
	if err != nil {
		t.Fatalf("instance: %v", err)
	}
	defer inst.Close()
	if faulty {
		// Rules answering UNKNOWN/FAILED for some keys: a gate skipped on an error path would show up in M4.
		for k := 0; k < 4; k++ {
			if ch.Pick(3, 0) == 2 {
				plan.Set("rules", pop.Accts[k].KName, []string{"unknown", "failed"}[ch.Pick(2, 0)])
			}
		}
	}
	ledger := NewLedger()
	domClass := func() ([]byte, string) {
		u := ch.U64()
		switch ch.Pick(9, 0) {
		case 8: // a foreign type whose later bytes contain the attester (or a slashable-looking) type pattern
			d := MkDomain([4]byte{byte([]int{0, 4, 2, 3, 7, 0}[ch.Pick(6, 0)]), 0, 0, byte(ch.Pick(2, 0))}, u)
			off := 1 + ch.Pick(27, 0)
			copy(d[off:], []byte{1, 0, 0, 0})
			if domType(d) == DomAttester {
				d[0] = 7
			}
			return d, "embedded-attester-pattern"
		case 0:
			return MkDomain(DomAttester, u), "attester"
		case 1:
			return MkDomain(DomProposer, u), "proposer"
		case 2:
			return MkDomain(DomExit, u), "exit"
		case 3: // other spec domain types
			return MkDomain([4]byte{byte([]int{2, 3, 5, 6, 7, 8, 9, 10}[ch.Pick(8, 0)]), 0, 0, 0}, u), "other-spec"
		case 4: // near misses of the slashable types
			return MkDomain([][4]byte{{1, 0, 0, 1}, {1, 1, 0, 0}, {0, 0, 0, 1}, {0, 1, 0, 0}, {4, 0, 0, 1}, {1, 0, 1, 0}}[ch.Pick(6, 0)], u), "near-miss"
		case 5:
			return MkDomain(DomAttester, 0), "attester"
		case 6:
			return MkDomain(DomProposer, 0), "proposer"
		default:
			return MkDomain([4]byte{byte(ch.Pick(256, 0)), byte(ch.Pick(256, 0)), byte(ch.Pick(256, 0)), byte(ch.Pick(256, 0))}, u), "random"
		}
	}
	listed := func(ip string) bool {
		for _, a := range admin {
			if a == ip && ip != "" {
				return true
			}
		}
		return false
	}
	nOps := 4 + ch.Pick(12, 0)
	var desc []string
	uniq := uint64(0)
	before, _ := inst.Export()
	for i := 0; i < nOps && len(rc.Viol) == 0; i++ {
		ip := ""
		if ch.Pick(5, 0) > 0 {
			ip = ipPool[ch.Pick(len(ipPool), 0)]
		}
		kind := []string{"gen", "multi", "att", "atts", "prop"}[ch.Pick(5, 0)]
		o := &Op{Kind: kind, Client: "client1", IP: ip}
		n := 1
		if kind == "multi" || kind == "atts" {
			n = 1 + ch.Pick(4, 0)
		}
		var classes []string
		for j := 0; j < n; j++ {
			uniq++
			d, cl := domClass()
			classes = append(classes, cl)
			var e Entry
			switch kind {
			case "att", "atts":
				e = AttEntry(j, uint64(i), uint64(i+1), uniq)
			case "prop":
				e = PropEntry(j, uint64(i+1), uniq)
			default:
				e = GenEntry(j, d, uniq)
			}
			e.Domain = d
			if (kind == "gen" || kind == "multi") && ch.Pick(6, 0) == 5 {
				// The 64 bytes of an object root followed by a slashable domain, cut into data and domain somewhere else.
				buf := append(append([]byte{}, h32("root", uniq)...), MkDomain([][4]byte{DomAttester, DomProposer}[ch.Pick(2, 0)], []uint64{0, uniq}[ch.Pick(2, 0)])...)
				cut := []int{31, 33, 28, 36, 30, 34, 16, 48, 4, 60}[ch.Pick(10, 0)]
				e.Data, e.Domain = buf[:cut:cut], append([]byte{}, buf[cut:]...)
				classes[len(classes)-1] = "shifted-boundary"
				rc.Stats.Inc("probe_shifted_boundary_requests", 1)
			}
			if (kind == "gen" || kind == "multi") && ch.Pick(10, 0) == 9 {
				// A domain of one to three bytes: the leading bytes of a slashable (or the exit) type, as a wire decoder
				// hands it over (its capacity is rounded up, so taking four bytes of it reads zeros).  Whatever such a
				// request is taken for, what comes out must not be a signature under that type.
				short := [][]byte{{1}, {0}, {4}, {1, 0}, {0, 0, 0}, {4, 0, 0}, {1, 0, 0}}[ch.Pick(7, 0)]
				e.Domain = append(make([]byte, 0, 8), short...)
				classes[len(classes)-1] = "short-domain"
				rc.Stats.Inc("probe_short_domain_requests", 1)
			}
			e.ByKey = ch.Pick(3, 0) == 1
			o.Entries = append(o.Entries, e)
		}
		var r *OpResult
		s.Direct(func() { r = o.Exec(inst) })
		desc = append(desc, fmt.Sprintf("%s%v ip=%q", kind, classes, ip))
		rc.Logf("%s %v ip=%q admin=%q -> %v", o, classes, ip, admin, r.States)
		Monitor(rc, ledger, pop, o, r, i, false) // M4: endpoint <-> domain type
		for j := range o.Entries {
			rc.Stats.Seen("cases", fmt.Sprintf("%s/%s/%v/%v", kind, classes[j], listed(ip), len(admin)))
			if !r.OK(j) {
				continue
			}
			rc.Stats.Inc("signed_"+kind+"_"+classes[j], 1)
			if (kind == "gen" || kind == "multi") && domType(o.Entries[j].Domain) == DomExit && !listed(ip) {
				rc.Violate("C05", "exit-signed-for-unlisted-source", fmt.Sprintf("%s position %d: voluntary-exit domain signed for source address %q, administrator list %q", o, j, ip, admin), i)
			}
		}
		// A request refused by the attestation/proposal endpoints for its domain leaves the state untouched.
		if kind == "att" || kind == "atts" || kind == "prop" {
			after, err := inst.Export()
			if err == nil {
				anyOK := false
				for j := range o.Entries {
					anyOK = anyOK || r.OK(j)
				}
				foreign := true
				for j := range o.Entries {
					dt := domType(o.Entries[j].Domain)
					if (kind == "prop" && dt == DomProposer) || (kind != "prop" && dt == DomAttester) {
						foreign = false
					}
				}
				if foreign && !anyOK && ExportString(trimEmpty(after)) != ExportString(trimEmpty(before)) {
					rc.Violate("C05", "refused-foreign-domain-changed-state", fmt.Sprintf("%s was refused for its domain but the slashing database changed from %s to %s", o, ExportString(before), ExportString(after)), i)
				}
				before = after
			}
		}
		// One time in three, what was just signed is presented again through the generic endpoints, from a drawn source
		// address: the same root under the same domain, for the same account (the object root of a signed attestation or
		// block under its slashable domain; a signed exit from another address).  A signature made before is no licence.
		signedAny := false
		for j := range o.Entries {
			signedAny = signedAny || r.OK(j)
		}
		if signedAny && len(rc.Viol) == 0 && ch.Pick(3, 0) == 2 {
			eo := &Op{Kind: []string{"gen", "multi"}[ch.Pick(2, 0)], Client: "client1", IP: ""}
			if ch.Pick(3, 0) > 0 {
				eo.IP = ipPool[ch.Pick(len(ipPool), 0)]
			}
			for j := range o.Entries {
				if !r.OK(j) || len(o.Entries[j].Domain) != 32 {
					continue
				}
				ee := o.Entries[j]
				ee.Data = append([]byte{}, o.Entries[j].ObjectRoot(kind)...)
				eo.Entries = append(eo.Entries, ee)
				if eo.Kind == "gen" {
					break
				}
			}
			if len(eo.Entries) > 0 {
				var er *OpResult
				s.Direct(func() { er = eo.Exec(inst) })
				rc.Stats.Inc("probe_signed_requests_presented_again_through_generic_endpoints", 1)
				rc.Logf("again: %s ip=%q -> %v", eo, eo.IP, er.States)
				Monitor(rc, ledger, pop, eo, er, i, false)
				for j := range eo.Entries {
					if er.OK(j) && domType(eo.Entries[j].Domain) == DomExit && !listed(eo.IP) {
						rc.Violate("C05", "exit-signed-for-unlisted-source", fmt.Sprintf("%s position %d: voluntary-exit domain signed for source address %q, administrator list %q (the same request had been signed for %q just before)", eo, j, eo.IP, admin, ip), i)
					}
				}
			}
		}
	}
	// A third of the runs end with two or three generic multisign requests in flight at once (interleaved by the
	// scheduler at every lock, storage, rules and Sign yield point), one of them carrying slashable or exit
	// domains among harmless ones: a verdict must not travel from one request to another.
	if len(rc.Viol) == 0 && ch.Pick(3, 0) == 2 {
		// With one processor every object pool and per-processor cache is shared by all requests.
		prevProcs := runtime.GOMAXPROCS([]int{1, 1, 4}[ch.Pick(3, 0)])
		defer runtime.GOMAXPROCS(prevProcs)
		k := 2 + ch.Pick(2, 0)
		ops := make([]*Op, k)
		res := make([]*OpResult, k)
		classes := make([][]string, k)
		for q := range ops {
			o := &Op{Kind: "multi", Client: "client1", IP: []string{"", "8.8.8.8"}[ch.Pick(2, 0)]}
			for j, n := 0, 2+ch.Pick(3, 0); j < n; j++ {
				uniq++
				d, cl := domClass()
				if q > 0 && ch.Pick(3, 0) > 0 {
					d, cl = MkDomain([4]byte{7, 0, 0, 0}, uniq), "other-spec" // the other requests are mostly harmless
				}
				e := GenEntry(q*5+j, d, uniq)
				e.ByKey = ch.Pick(3, 0) == 1
				o.Entries = append(o.Entries, e)
				classes[q] = append(classes[q], cl)
			}
			ops[q] = o
		}
		for q := range ops {
			q := q
			s.Spawn(fmt.Sprintf("multi%d", q), inst, func(t *Task) { res[q] = ops[q].Exec(inst) })
		}
		out := s.Run()
		rc.Stats.Inc("concurrent_multisign_phases", 1)
		if out == "done" {
			for q, o := range ops {
				if res[q] == nil {
					continue
				}
				rc.Logf("concurrent %s %v -> %v", o, classes[q], res[q].States)
				Monitor(rc, ledger, pop, o, res[q], nOps+q, false)
				for j := range o.Entries {
					if res[q].OK(j) && domType(o.Entries[j].Domain) == DomExit && !listed(o.IP) {
						rc.Violate("C05", "exit-signed-for-unlisted-source", fmt.Sprintf("%s position %d (concurrent with other requests): voluntary-exit domain signed for source address %q, administrator list %q", o, j, o.IP, admin), nOps+q)
					}
				}
			}
		}
		desc = append(desc, fmt.Sprintf("%d concurrent multisign requests", k))
	}
	rc.Sample = map[string]any{"admin_ips": admin, "rules_faults": faulty, "ops": desc}
}

// trimEmpty drops records that say "never signed" in every field.
func trimEmpty(m map[string]Watermark) map[string]Watermark {
	out := map[string]Watermark{}
	for k, v := range m {
		if v != NoWatermark {
			out[k] = v
		}
	}
	return out
}

func init() {
	propRunners["C05"] = runDomains
}
