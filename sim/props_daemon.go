package sim

import (
	"bytes"
	"context"
	"encoding/hex"
	"encoding/json"
	"fmt"
	"os"
	"os/exec"
	"path/filepath"
	"regexp"
	"strconv"
	"strings"
	"sync"
	"testing"
	"time"

	pb "github.com/wealdtech/eth2-signer-api/pb/v1"
	"google.golang.org/grpc"
	"google.golang.org/grpc/codes"
	"google.golang.org/grpc/status"
	"google.golang.org/protobuf/proto"
	"google.golang.org/protobuf/types/known/emptypb"
)

// Runners of W7 (daemon.go): the dirk binary as a daemon process.

func stdFSPopulation(t *testing.T) *fsPopulation {
	w1 := WalletSpec{Name: "Wallet 1", Kind: "nd"}
	for i := 0; i < 6; i++ {
		w1.Accounts = append(w1.Accounts, fmt.Sprintf("Account %d", i))
	}
	w2 := WalletSpec{Name: "Wallet 2", Kind: "nd", Accounts: []string{"Account 0", "Account 1", "Account 0/sub"}}
	// as in the in-process standard population, the first key is this instance's share of a threshold key
	return newFSPopulation(t, "fsstd", []WalletSpec{{Name: "Wallet 3", Kind: "distributed", Accounts: []string{"Shared validator"}}, w1, w2})
}

// daemonLogLevel draws the daemon's log-level setting (decision 0 = the default).
func daemonLogLevel(rc *RunCtx) string {
	l := []string{"", "", "info", "trace", "debug", "warn", "error", "none"}[rc.Ch.Pick(8, 0)]
	rc.Stats.Inc("daemon_runs_with_log_level_"+l, 1)
	return l
}

// transportDown says whether an error of a call means "no answer from the process" (as opposed to an answer that
// says no).
func transportDown(err error) bool {
	if err == nil {
		return false
	}
	c := status.Code(err)
	return c == codes.Unavailable || c == codes.DeadlineExceeded || c == codes.Canceled || c == codes.Internal && strings.Contains(err.Error(), "transport")
}

// runDaemonHist: conflict-seeking histories (as C01/C02) sent to the daemon process over gRPC/TLS by a permitted
// client, sequentially or a few at a time, while the process is killed at drawn storage points or between requests,
// meets failing storage operations, is stopped and started again - always on the same base directory.  What the
// client received is the ledger; what it did not receive was never released.
func runDaemonHist(t *testing.T, rc *RunCtx, prop string) {
	InitBLS()
	ch := rc.Ch
	pop := stdFSPopulation(t)
	all := `{"client-test01": {"Wallet 1": ["All"], "Wallet 2": ["All"], "Wallet 3": ["All"]}}`
	how := ch.Pick(6, 0)
	home, envOnly := how == 3, how == 4
	d := NewDaemon(t, rc, DaemonCfg{Pop: pop, PermissionsJSON: all, Pruning: ch.Pick(2, 0) == 1, HomeConfig: home, EnvConfig: envOnly, LogLevel: daemonLogLevel(rc)})
	defer d.Close()
	if home {
		rc.Stats.Inc("daemon_runs_configured_from_home_directory", 1)
	}
	if envOnly {
		rc.Stats.Inc("daemon_runs_configured_from_environment_only", 1)
	}
	ledger := NewLedger()
	nKeys := 1 + ch.Pick(3, 0)
	g := &histGen{rc: rc, ledger: ledger, pop: pop.Population, nKeys: nKeys, big: ch.Pick(3, 0) == 0}
	var api signerAPI
	var desc []string
	start := func() bool {
		var env []string
		switch ch.Pick(6, 0) {
		case 1, 2:
			env = []string{"VERIF_HOOK_KILL_AT=" + strconv.Itoa(1+ch.Pick(16, 0))}
			rc.Stats.Inc("daemon_incarnations_with_a_kill_point", 1)
		case 3:
			fa := strconv.Itoa(1 + ch.Pick(10, 0))
			if ch.Pick(2, 0) == 1 {
				fa += "+"
			}
			env = []string{"VERIF_HOOK_FAIL_AT=" + fa}
			rc.Stats.Inc("daemon_incarnations_with_failing_storage", 1)
		}
		if err := d.Start(env...); err != nil {
			// A daemon that does not come up releases nothing; the history ends here (counted, not judged).
			rc.Stats.Inc("daemon_start_failed", 1)
			rc.Logf("start failed: %v", err)
			return false
		}
		desc = append(desc, fmt.Sprintf("START%v", env))
		var err error
		api, err = d.Signer("client-test01", "")
		if err != nil {
			rc.Violate("HARNESS", "dial-failed", err.Error(), 0)
			return false
		}
		return true
	}
	if !start() {
		if d.Incarnation == 0 {
			rc.Violate("HARNESS", "daemon-did-not-start", d.LogTail(1500), 0)
		}
		return
	}
	kindOf := func() string {
		switch prop {
		case "C01":
			return "C01"
		case "C02":
			return "C02"
		}
		return []string{"C01", "C02"}[ch.Pick(2, 0)]
	}
	nOps := 6 + ch.Pick(20, 0)
	served := 0
	for i := 0; i < nOps && len(rc.Viol) == 0; i++ {
		if !d.Alive() {
			d.Reap()
			rc.Stats.Inc("crash_real_daemon_died_at_storage_point", 1)
			desc = append(desc, "DIED")
			if !start() {
				return
			}
		}
		k := 1
		if ch.Pick(4, 0) == 3 {
			k = 2 + ch.Pick(3, 0) // a few requests at once
		}
		ops := make([]*Op, k)
		res := make([]*OpResult, k)
		for j := range ops {
			ops[j] = g.op(kindOf())
		}
		var wg sync.WaitGroup
		for j := range ops {
			wg.Add(1)
			go func(j int) {
				defer wg.Done()
				res[j] = ops[j].ExecVia(context.Background(), pop.Population, api)
			}(j)
		}
		wg.Wait()
		for j := range ops {
			r := res[j]
			desc = append(desc, ops[j].String())
			rc.Logf("op %d.%d %s -> states=%v err=%v", i, j, ops[j], r.States, r.Err)
			if r.Err != nil {
				if transportDown(r.Err) {
					rc.Stats.Inc("requests_without_an_answer", 1)
				}
				continue // no response message: nothing was released
			}
			served++
			Monitor(rc, ledger, pop.Population, ops[j], r, i, k == 1)
		}
		rc.Stats.Inc("daemon_requests", int64(k))
		switch ch.Pick(12, 0) {
		case 10:
			d.Kill()
			rc.Stats.Inc("crash_real_daemon_killed_between_requests", 1)
			desc = append(desc, "KILL")
			if !start() {
				return
			}
		case 11:
			d.Stop()
			rc.Stats.Inc("clean_restarts", 1)
			desc = append(desc, "STOP")
			if !start() {
				return
			}
		case 9:
			// A clean stop under load: a client keeps asking for blocks at rising slots (a key of its own, the last of the
			// population) while the process is told to shut down.  Whatever it was given before the process went is on record
			// for the next process: the highest slot it got is asked for again, with another block.
			kx := len(pop.Accts) - 1
			type got struct {
				o *Op
				r *OpResult
			}
			const hammerers = 16 // each with a key of its own, so that several requests are in flight when the signal arrives
			perClient := make([][]got, hammerers)
			var hw sync.WaitGroup
			base := uint64(5_000_000 + i*100_000)
			for c := 0; c < hammerers; c++ {
				hw.Add(1)
				go func(c int) {
					defer hw.Done()
					for slot := base; slot < base+50_000; slot++ {
						o := &Op{Kind: "prop", Entries: []Entry{PropEntry(kx-c, slot, 2*slot)}}
						r := o.ExecVia(context.Background(), pop.Population, api)
						if r.Err != nil {
							return
						}
						perClient[c] = append(perClient[c], got{o, r})
					}
				}(c)
			}
			time.Sleep(time.Duration(5+ch.Pick(60, 0)) * time.Millisecond)
			d.Stop()
			hw.Wait()
			var answers []got
			highest := make([]uint64, hammerers)
			for c := range perClient {
				for _, a := range perClient[c] {
					answers = append(answers, a)
					Monitor(rc, ledger, pop.Population, a.o, a.r, i, false)
					if a.r.OK(0) {
						highest[c] = a.o.Entries[0].PSlot
					}
				}
			}
			rc.Stats.Inc("clean_stops_under_load", 1)
			rc.Stats.Inc("requests_answered_while_stopping", int64(len(answers)))
			desc = append(desc, fmt.Sprintf("STOP-UNDER-LOAD(%d answered)", len(answers)))
			if !start() {
				return
			}
			for c, h := range highest {
				if h == 0 {
					continue
				}
				o := &Op{Kind: "prop", Entries: []Entry{PropEntry(kx-c, h, 2*h+1)}}
				r := o.ExecVia(context.Background(), pop.Population, api)
				if r.Err == nil {
					Monitor(rc, ledger, pop.Population, o, r, i, false)
				}
			}
		}
	}
	if prop == "C03" && d.Incarnation > 1 {
		// In C03's layer the pairwise ledger spans the incarnations of the process: a conflicting pair released by
		// processes that followed one another on the directory is what C03 is about.
		for i := range rc.Viol {
			if v := rc.Viol[i]; v.Property == "C01" || v.Property == "C02" {
				rc.Viol[i] = Violation{Property: "C03", Key: "conflicting-signatures-released-by-daemon-processes", Detail: fmt.Sprintf("%d daemon processes followed one another on the directory (%v): %s", d.Incarnation, desc, v.Detail), Step: v.Step}
			}
		}
	}
	if ledger.N >= 1 {
		rc.Stats.Seen("cases", hexShort(h32(desc)))
	}
	if len(desc) > 30 {
		desc = append(desc[:30], "...")
	}
	rc.Sample = map[string]any{"layer": "the dirk binary as a daemon process over gRPC/TLS", "keys": nKeys, "history": desc, "released": ledger.N, "answered": served}
}

// runDaemonEdge: what the configuration file says about administrator addresses reaches the rules (C05), and what it
// says about the certificate authority reaches the TLS edge (C19) - through main.go, not through the simulator's own
// wiring.
func runDaemonEdge(t *testing.T, rc *RunCtx, prop string) {
	InitBLS()
	ch := rc.Ch
	pop := stdFSPopulation(t)
	adminSets := [][]string{nil, {"127.0.0.2"}, {"127.0.0.1", "127.0.0.3"}, {"127.0.0.20", "10.0.0.1"}}
	admins := adminSets[ch.Pick(len(adminSets), 0)]
	noCA := prop == "C19" && ch.Pick(3, 0) == 2
	d := NewDaemon(t, rc, DaemonCfg{Pop: pop, AdminIPs: admins, NoCA: noCA, LogLevel: daemonLogLevel(rc)})
	defer d.Close()
	if err := d.Start(); err != nil {
		rc.Violate("HARNESS", "daemon-did-not-start", err.Error(), 0)
		return
	}
	listed := func(ip string) bool {
		for _, a := range admins {
			if a == ip {
				return true
			}
		}
		return false
	}
	uniq := uint64(0)
	if prop == "C05" {
		for _, ip := range []string{"127.0.0.1", "127.0.0.2", "127.0.0.3", "127.0.0.20"} {
			cc, err := d.Dial("client-test01", ip)
			if err != nil {
				rc.Violate("HARNESS", "dial-failed", err.Error(), 0)
				return
			}
			for _, multi := range []bool{false, true} {
				uniq++
				ctx, cancel := context.WithTimeout(context.Background(), 20*time.Second)
				dom := MkDomain(DomExit, uniq)
				var st pb.ResponseState
				var sig []byte
				var err error
				if multi {
					var r *pb.MultisignResponse
					r, err = pb.NewSignerClient(cc).Multisign(ctx, &pb.MultisignRequest{Requests: []*pb.SignRequest{
						{Id: &pb.SignRequest_Account{Account: "Wallet 1/Account 1"}, Data: h32("h", uniq), Domain: MkDomain([4]byte{7, 0, 0, 0}, uniq)},
						{Id: &pb.SignRequest_Account{Account: "Wallet 1/Account 0"}, Data: h32("exit", uniq), Domain: dom}}})
					if err == nil && len(r.GetResponses()) == 2 {
						st, sig = r.GetResponses()[1].GetState(), r.GetResponses()[1].GetSignature()
					}
				} else {
					var r *pb.SignResponse
					r, err = pb.NewSignerClient(cc).Sign(ctx, &pb.SignRequest{Id: &pb.SignRequest_Account{Account: "Wallet 1/Account 0"}, Data: h32("exit", uniq), Domain: dom})
					if err == nil {
						st, sig = r.GetState(), r.GetSignature()
					}
				}
				cancel()
				if err != nil {
					rc.Violate("HARNESS", "daemon-call-failed", err.Error(), 0)
					return
				}
				rc.Stats.Inc("daemon_exit_requests", 1)
				signed := st == pb.ResponseState_SUCCEEDED || len(sig) > 0
				rc.Stats.Seen("cases", fmt.Sprintf("daemon-exit/%v/%s/%v/%v", admins, ip, multi, signed))
				if signed && !listed(ip) {
					rc.Violate("C05", "exit-signed-for-unlisted-source", fmt.Sprintf("the daemon process, configured with administrator addresses %v, signed a voluntary exit (multi=%v) for a client connecting from %s", admins, multi, ip), 0)
					return
				}
				if signed {
					rc.Stats.Inc("daemon_exit_signed_for_listed_source", 1)
				} else {
					rc.Stats.Inc("daemon_exit_refused", 1)
				}
			}
		}
		rc.Sample = map[string]any{"layer": "administrator addresses from the configuration file of a daemon process", "admin_ips": fmt.Sprint(admins)}
		return
	}
	// C19: a slice of the credential table against the daemon process.
	w := getTLSWorld(t, rc)
	srv := &tlsServer{addr: d.Addr}
	creds := []string{"plaintext", "tls-no-client-cert", "self-signed-permitted-name", "other-authority-permitted-name", "host-trust-store-authority-permitted-name",
		"valid-unpermitted-client", "valid-client-test01", "valid-client-test02", "self-signed-permitted-name-followed-by-genuine-client-certificate",
		"valid-client-test02-followed-by-forged-client-test01", "issued-subject-client-test02-alt-name-client-test01-only"}
	untrusted := map[string]bool{"plaintext": true, "tls-no-client-cert": true, "self-signed-permitted-name": true, "other-authority-permitted-name": true,
		"host-trust-store-authority-permitted-name": true, "self-signed-permitted-name-followed-by-genuine-client-certificate": true}
	identity := map[string]string{"valid-unpermitted-client": "client-test03", "valid-client-test01": "client-test01", "valid-client-test02": "client-test02",
		"valid-client-test02-followed-by-forged-client-test01": "client-test02", "issued-subject-client-test02-alt-name-client-test01-only": "client-test02"}
	mayUse := map[string]string{"client-test01": "Wallet 1", "client-test02": "Wallet 2"}
	for _, cred := range creds {
		cc, err := w.dial(srv, cred)
		if err != nil {
			continue
		}
		for _, wl := range []string{"Wallet 1", "Wallet 2"} {
			uniq++
			ctx, cancel := context.WithTimeout(context.Background(), 20*time.Second)
			var got bool
			var what string
			if ch.Pick(2, 0) == 1 {
				r, err := pb.NewListerClient(cc).ListAccounts(ctx, &pb.ListAccountsRequest{Paths: []string{wl}})
				got, what = err == nil && len(r.GetAccounts()) > 0, "a listing"
				if err == nil && untrusted[cred] || noCA && err == nil {
					got, what = true, fmt.Sprintf("a response message to ListAccounts (%d accounts)", len(r.GetAccounts()))
				}
			} else {
				r, err := pb.NewSignerClient(cc).Sign(ctx, &pb.SignRequest{Id: &pb.SignRequest_Account{Account: wl + "/Account 0"}, Data: h32("d19", uniq), Domain: MkDomain([4]byte{7, 0, 0, 0}, uniq)})
				got, what = err == nil && (r.GetState() == pb.ResponseState_SUCCEEDED || len(r.GetSignature()) > 0), "a signature"
				if err == nil && untrusted[cred] || noCA && err == nil {
					got, what = true, fmt.Sprintf("a response message to Sign (state %v)", r.GetState())
				}
			}
			cancel()
			rc.Stats.Inc("daemon_credential_calls", 1)
			rc.Stats.Seen("cases", fmt.Sprintf("daemon-cred/%v/%s/%s/%v", noCA, cred, wl, got))
			switch {
			case got && (untrusted[cred] || noCA):
				rc.Violate("C19", "served-without-valid-certificate", fmt.Sprintf("the daemon process (authority configured: %v) gave %s for %s to a caller with credential %s", !noCA, what, wl, cred), 0)
			case got && mayUse[identity[cred]] != wl:
				rc.Violate("C19", "identity-not-taken-from-verified-certificate", fmt.Sprintf("the daemon process gave %s for %s to a caller with credential %s (verified subject %s)", what, wl, cred, identity[cred]), 0)
			case got:
				rc.Stats.Inc("daemon_permitted_calls_served", 1)
			}
		}
		_ = cc.Close()
		if len(rc.Viol) > 0 {
			return
		}
	}
	rc.Sample = map[string]any{"layer": "credential table against a daemon process", "authority_configured": !noCA}
}

func init() {
	for _, k := range []string{"C01:daemon", "C02:daemon", "C03:daemon", "C05:daemon", "C19:daemon", "C07:daemon", "C18:daemon", "C20:daemon", "C10:daemon", "C11:daemon", "C17:daemon"} {
		noBubble[k] = true
	}
}

func permFSPopulation(t *testing.T) *fsPopulation {
	return newFSPopulation(t, "fsperm", append(append([]WalletSpec{}, permWallets...), WalletSpec{Name: "Dist", Kind: "distributed"}))
}

// runDaemonPerm: the permission table is what the operator wrote into the daemon's configuration file - clients,
// for each client its entries in the order written, patterns in the spelling written - and the daemon process is
// held to the reference evaluator on exactly that (C07: operations; C18: listings).  The clients are the three
// genuine client certificates of the repository's test resources.
func runDaemonPerm(t *testing.T, rc *RunCtx, prop string) {
	InitBLS()
	ch := rc.Ch
	pop := permFSPopulation(t)
	rt0, drawn := drawTable(rc)
	names := []string{"client-test01", "client-test02", "client-test03"}
	rt := refTable{}
	var sb strings.Builder
	sb.WriteString("{")
	for i, c := range drawn {
		if i >= len(names) {
			break
		}
		if i > 0 {
			sb.WriteString(", ")
		}
		fmt.Fprintf(&sb, "%q: {", names[i])
		seen := map[string]bool{}
		first := true
		for _, e := range rt0[c] {
			// a mapping has one value per key, and its keys are compared without regard to case by the configuration reader
			if seen[strings.ToLower(e.Path)] {
				continue
			}
			seen[strings.ToLower(e.Path)] = true
			rt[names[i]] = append(rt[names[i]], e)
			if !first {
				sb.WriteString(", ")
			}
			first = false
			ops, _ := json.Marshal(e.Operations)
			key, _ := json.Marshal(e.Path)
			fmt.Fprintf(&sb, "%s: %s", key, ops)
		}
		sb.WriteString("}")
	}
	sb.WriteString("}")
	d := NewDaemon(t, rc, DaemonCfg{Pop: pop, PermissionsJSON: sb.String(), LogLevel: daemonLogLevel(rc)})
	defer d.Close()
	if err := d.Start(); err != nil {
		rc.Violate("HARNESS", "daemon-did-not-start", err.Error(), 0)
		return
	}
	conns := map[string]*grpcConn{}
	for _, n := range names {
		cc, err := d.Dial(n, "")
		if err != nil {
			rc.Violate("HARNESS", "dial-failed", err.Error(), 0)
			return
		}
		conns[n] = &grpcConn{signer: remoteSigner{cl: pb.NewSignerClient(cc), timeout: 20 * time.Second}, lister: pb.NewListerClient(cc), acct: pb.NewAccountManagerClient(cc)}
	}
	epoch := map[string]uint64{}
	var desc []string
	nOps := 10 + ch.Pick(25, 0)
	for i := 0; i < nOps && len(rc.Viol) == 0; i++ {
		client := names[ch.Pick(len(names), 0)]
		cn := conns[client]
		a := pop.Accts[ch.Pick(len(pop.Accts), 0)]
		if prop == "C18" {
			// A listing of one or two wallets (sometimes with an account pattern).
			wl := permWallets[ch.Pick(len(permWallets), 0)].Name
			paths := []string{wl}
			if ch.Pick(3, 0) == 2 {
				paths = []string{wl + "/" + []string{"acc.*", ".*1", "acc1|Acc2", "val-.*"}[ch.Pick(4, 0)]}
			}
			if ch.Pick(3, 0) == 2 {
				paths = append(paths, permWallets[ch.Pick(len(permWallets), 0)].Name)
			}
			ctx, cancel := context.WithTimeout(context.Background(), 20*time.Second)
			res, err := cn.lister.ListAccounts(ctx, &pb.ListAccountsRequest{Paths: paths})
			cancel()
			if err != nil {
				rc.Violate("HARNESS", "daemon-call-failed", err.Error(), i)
				return
			}
			got := map[string]bool{}
			for _, x := range res.GetAccounts() {
				got[x.GetName()] = true
				wn, an := splitPath(x.GetName())
				if !rt.allows(client, wn, an, "Access account") {
					rc.Violate("C18", "inaccessible-account-listed", fmt.Sprintf("the daemon process listed %s for %s (paths %q), who lacks Access account on it; permissions as configured: %s", x.GetName(), client, paths, rt), i)
					return
				}
				if k := pop.ByPath(x.GetName()); k == nil || string(k.PubKey) != string(x.GetPublicKey()) {
					rc.Violate("C18", "wrong-public-key", fmt.Sprintf("the daemon process listed %s with a key that is not its own", x.GetName()), i)
					return
				}
			}
			for _, acc := range pop.Accts {
				if !rt.allows(client, acc.Wallet, acc.Name, "Access account") {
					continue
				}
				match := false
				for _, p := range paths {
					wn, ap := splitPath(p)
					if wn != acc.Wallet {
						continue
					}
					if ap == "" {
						match = true
						continue
					}
					// requested account patterns are matched as written (case matters), on the whole name
					if re, err := regexp.Compile(`\A(?:` + ap + `)\z`); err == nil && re.MatchString(acc.Name) {
						match = true
					}
				}
				if match {
					rc.Stats.Inc("daemon_completeness_obligations", 1)
					if !got[acc.Path] {
						rc.Violate("C18", "accessible-account-missing", fmt.Sprintf("the daemon process did not list %s for %s (paths %q) although the configured permissions give access: %s", acc.Path, client, paths, rt), i)
						return
					}
				}
			}
			rc.Stats.Inc("daemon_listings", 1)
			rc.Stats.Seen("cases", fmt.Sprintf("daemon-list/%v/%d", paths, len(got)))
			desc = append(desc, fmt.Sprintf("list %s %q -> %d", client, paths, len(got)))
			continue
		}
		op := []string{"Sign", "Sign beacon attestation", "Sign beacon proposal", "Access account", "Lock account", "Unlock account"}[ch.Pick(6, 0)]
		epoch[a.KName]++
		ep := epoch[a.KName]
		byKey := ch.Pick(3, 0) == 2 && !a.DupKey
		served := false
		var callErr error
		switch op {
		case "Sign":
			o := &Op{Kind: "gen", Entries: []Entry{GenEntry(a.idx, MkDomain([4]byte{7, 0, 0, 0}, ep), uint64(i+1))}}
			o.Entries[0].ByKey = byKey
			r := o.ExecVia(context.Background(), pop.Population, cn.signer)
			served, callErr = r.OK(0), r.Err
		case "Sign beacon attestation":
			o := &Op{Kind: "att", Entries: []Entry{AttEntry(a.idx, ep, ep+1, uint64(i+1))}}
			o.Entries[0].ByKey = byKey
			r := o.ExecVia(context.Background(), pop.Population, cn.signer)
			served, callErr = r.OK(0), r.Err
		case "Sign beacon proposal":
			o := &Op{Kind: "prop", Entries: []Entry{PropEntry(a.idx, ep, uint64(i+1))}}
			o.Entries[0].ByKey = byKey
			r := o.ExecVia(context.Background(), pop.Population, cn.signer)
			served, callErr = r.OK(0), r.Err
		case "Access account":
			ctx, cancel := context.WithTimeout(context.Background(), 20*time.Second)
			res, err := cn.lister.ListAccounts(ctx, &pb.ListAccountsRequest{Paths: []string{a.Wallet}})
			cancel()
			callErr = err
			if err == nil {
				for _, x := range res.GetAccounts() {
					if x.GetName() == a.Path {
						served = true
					}
				}
			}
		case "Lock account":
			ctx, cancel := context.WithTimeout(context.Background(), 20*time.Second)
			res, err := cn.acct.Lock(ctx, &pb.LockAccountRequest{Account: a.Path})
			cancel()
			served, callErr = err == nil && res.GetState() == pb.ResponseState_SUCCEEDED, err
		case "Unlock account":
			ctx, cancel := context.WithTimeout(context.Background(), 20*time.Second)
			res, err := cn.acct.Unlock(ctx, &pb.UnlockAccountRequest{Account: a.Path, Passphrase: []byte("pass")})
			cancel()
			served, callErr = err == nil && res.GetState() == pb.ResponseState_SUCCEEDED, err
		}
		if callErr != nil && transportDown(callErr) {
			rc.Violate("HARNESS", "daemon-call-failed", callErr.Error(), i)
			return
		}
		want := rt.allows(client, a.Wallet, a.Name, op)
		what := fmt.Sprintf("%s by %s on %s bykey=%v: served=%v, configured permissions say %v", op, client, a.Path, byKey, served, want)
		desc = append(desc, what)
		rc.Logf("%s", what)
		rc.Stats.Inc("daemon_permission_decisions", 1)
		rc.Stats.Seen("cases", fmt.Sprintf("daemon-perm/%s|%s|%v|%v", op, a.Path, want, served))
		if served && !want {
			rc.Violate("C07", "served-without-permission", fmt.Sprintf("the daemon process carried out %s although the permissions in its configuration file, read in the order and spelling written, refuse it: %s", what, rt), i)
			return
		}
		if served {
			rc.Stats.Inc("daemon_operations_served", 1)
		} else if want {
			rc.Stats.Inc("daemon_allowed_but_not_served", 1)
		}
	}
	if len(desc) > 12 {
		desc = desc[:12]
	}
	rc.Sample = map[string]any{"layer": "permissions from the configuration file of a daemon process", "permissions": rt.String(), "events": desc}
}

type grpcConn struct {
	signer signerAPI
	lister pb.ListerClient
	acct   pb.AccountManagerClient
}

func wireFSPopulation(t *testing.T) *fsPopulation {
	w1 := WalletSpec{Name: "Wallet 1", Kind: "nd", Accounts: []string{"Account 0", "Account 1", "Account 2"}}
	w2 := WalletSpec{Name: "Wallet 2", Kind: "nd", Accounts: []string{"Account 0", "Canary"}}
	return newFSPopulation(t, "fswire", []WalletSpec{w1, w2, {Name: "Wallet 3", Kind: "distributed"}})
}

var wireReplies = map[string]func() proto.Message{
	"Lister.ListAccounts":           func() proto.Message { return &pb.ListAccountsResponse{} },
	"Signer.Sign":                   func() proto.Message { return &pb.SignResponse{} },
	"Signer.Multisign":              func() proto.Message { return &pb.MultisignResponse{} },
	"Signer.SignBeaconAttestation":  func() proto.Message { return &pb.SignResponse{} },
	"Signer.SignBeaconAttestations": func() proto.Message { return &pb.MultisignResponse{} },
	"Signer.SignBeaconProposal":     func() proto.Message { return &pb.SignResponse{} },
	"AccountManager.Generate":       func() proto.Message { return &pb.GenerateResponse{} },
	"AccountManager.Lock":           func() proto.Message { return &pb.LockAccountResponse{} },
	"AccountManager.Unlock":         func() proto.Message { return &pb.UnlockAccountResponse{} },
	"WalletManager.Lock":            func() proto.Message { return &pb.LockWalletResponse{} },
	"WalletManager.Unlock":          func() proto.Message { return &pb.UnlockWalletResponse{} },
	"DKG.Prepare":                   func() proto.Message { return &emptypb.Empty{} },
	"DKG.Execute":                   func() proto.Message { return &emptypb.Empty{} },
	"DKG.Commit":                    func() proto.Message { return &pb.CommitResponse{} },
	"DKG.Abort":                     func() proto.Message { return &emptypb.Empty{} },
	"DKG.Contribute":                func() proto.Message { return &pb.ContributeResponse{} },
}

// runDaemonWire is C20 against the daemon process: the generated requests of the wire world travel over real gRPC/TLS
// (the server's own decoding, limits and interceptors) from the three genuine clients; after each one another
// client's ordinary request must still be served.  A request that kills the daemon kills a real process here.
func runDaemonWire(t *testing.T, rc *RunCtx) {
	InitBLS()
	ch := rc.Ch
	pop := wireFSPopulation(t)
	d := NewDaemon(t, rc, DaemonCfg{Pop: pop})
	defer d.Close()
	if err := d.Start(); err != nil {
		rc.Violate("HARNESS", "daemon-did-not-start", err.Error(), 0)
		return
	}
	conns := map[string]*grpc.ClientConn{}
	for _, n := range []string{"client-test01", "client-test02", "client-test03"} {
		cc, err := d.Dial(n, "")
		if err != nil {
			rc.Violate("HARNESS", "dial-failed", err.Error(), 0)
			return
		}
		conns[n] = cc
	}
	g := &wireGen{rc: rc, pop: pop.Population, epoch: map[int]uint64{}}
	wireMutator = g.mutateWire
	defer func() { wireMutator = nil }()
	canaryAcct := pop.ByPath("Wallet 2/Canary")
	canary := remoteSigner{cl: pb.NewSignerClient(conns["client-test02"]), timeout: 30 * time.Second}
	nReq := 8 + ch.Pick(24, 0)
	var desc []string
	for i := 0; i < nReq && len(rc.Viol) == 0; i++ {
		wc := g.next()
		mk, ok := wireReplies[wc.name]
		if !ok {
			continue
		}
		if m, ok := wc.req.(*pb.PrepareRequest); ok && m.GetThreshold() > 1<<16 {
			continue // what a peer may ask for is outside this property (DESIGN.md section 16)
		}
		client := []string{"client-test01", "client-test01", "client-test02", "client-test03"}[ch.Pick(4, 0)]
		svc, method, _ := strings.Cut(wc.name, ".")
		line := fmt.Sprintf("%s as %s: %s", wc.name, client, truncate(fmt.Sprint(wc.req), 300))
		rc.Logf("req %d %s", i, line)
		desc = append(desc, wc.name)
		rc.Stats.Seen("cases", "daemon-wire/"+wc.name+"/"+hexShort(h32(fmt.Sprint(wc.req))))
		rc.Stats.Inc("daemon_wire_requests", 1)
		ctx, cancel := context.WithTimeout(context.Background(), 30*time.Second)
		err := conns[client].Invoke(ctx, "/v1."+svc+"/"+method, wc.req, mk())
		cancel()
		if status.Code(err) == codes.DeadlineExceeded && d.Alive() {
			rc.Violate("C20", "request-never-answered", "daemon process: "+line, i)
			return
		}
		// Canary (and liveness of the process).
		e := AttEntry(canaryAcct.idx, uint64(i+1), uint64(i+2), uint64(1_000_000+i))
		req := &pb.SignBeaconAttestationRequest{Id: &pb.SignBeaconAttestationRequest_Account{Account: canaryAcct.Path}, Domain: e.Domain, Data: e.attData()}
		cres, cerr := canary.SignBeaconAttestation(context.Background(), req)
		if !d.Alive() {
			d.Reap()
			rc.Violate("C20", "process-crash", fmt.Sprintf("the daemon process died after %s: %s", line, truncate(tailPanic(d.LogTail(6000)), 1500)), i)
			return
		}
		if cerr != nil || cres.GetState() != pb.ResponseState_SUCCEEDED {
			rc.Violate("C20", "instance-stopped-serving", fmt.Sprintf("after %s the canary request of another client was not served by the daemon process (err=%v res=%v)", line, cerr, cres), i)
			return
		}
		rc.Stats.Inc("canaries_served", 1)
	}
	rc.Sample = map[string]any{"layer": "generated requests over gRPC/TLS against a daemon process", "requests": desc}
}

func tailPanic(log string) string {
	if i := strings.Index(log, "panic:"); i >= 0 {
		return log[i:]
	}
	if i := strings.Index(log, "fatal error:"); i >= 0 {
		return log[i:]
	}
	return log
}

// daemonCLI runs a one-shot command of the binary (export / import) against a daemon's base directory, from a
// working directory of its own.
func daemonCLI(t *testing.T, d *Daemon, cwd string, args ...string) (int, string, string) {
	if err := os.MkdirAll(cwd, 0o700); err != nil {
		t.Fatalf("mkdir: %v", err)
	}
	var cmd *exec.Cmd
	if d.cfg.HomeConfig {
		cmd = exec.Command(dirkBinary(t), args...)
	} else {
		cmd = exec.Command(dirkBinary(t), append([]string{"--base-dir", d.Base}, args...)...)
	}
	cmd.Env = []string{"HOME=" + d.Base, "PATH=/usr/bin:/bin"}
	cmd.Dir = cwd
	var so, se bytes.Buffer
	cmd.Stdout, cmd.Stderr = &so, &se
	err := cmd.Run()
	code := 0
	if err != nil {
		if ee, ok := err.(*exec.ExitError); ok {
			code = ee.ExitCode()
		} else {
			t.Fatalf("dirk: %v", err)
		}
	}
	return code, so.String(), se.String()
}

func parseExport(pop *Population, out string) (map[string]Watermark, error) {
	var f icFile
	if err := json.Unmarshal([]byte(out), &f); err != nil {
		return nil, err
	}
	res := map[string]Watermark{}
	for _, d := range f.Data {
		kb, err := hex.DecodeString(strings.TrimPrefix(d.PubKey, "0x"))
		if err != nil {
			return nil, err
		}
		w := NoWatermark
		for _, b := range d.Blocks {
			v, _ := strconv.ParseInt(b.Slot, 10, 64)
			w.Slot = v
		}
		for _, a := range d.Atts {
			w.Src, _ = strconv.ParseInt(a.Source, 10, 64)
			w.Tgt, _ = strconv.ParseInt(a.Target, 10, 64)
		}
		res[pop.KeyName(kb)] = w
	}
	return res, nil
}

// runDaemonInterchange: export and import as an operator runs them - one-shot commands of the same binary, on the
// same base directory (or home directory) as the daemon, from whatever directory the shell happens to be in - around
// a daemon process that signs in between.  C11: what the command exports is what the daemon released.  C10: what the
// command imported binds the daemon started afterwards.  The storage path is the default or a relative one.
func runDaemonInterchange(t *testing.T, rc *RunCtx, prop string) {
	InitBLS()
	ch := rc.Ch
	pop := stdFSPopulation(t)
	all := `{"client-test01": {"Wallet 1": ["All"], "Wallet 2": ["All"], "Wallet 3": ["All"]}}`
	d := NewDaemon(t, rc, DaemonCfg{Pop: pop, PermissionsJSON: all, HomeConfig: ch.Pick(3, 0) == 2, RelativeStorage: true})
	defer d.Close()
	if err := d.Start(); err != nil {
		rc.Violate("HARNESS", "daemon-did-not-start", err.Error(), 0)
		return
	}
	api, err := d.Signer("client-test01", "")
	if err != nil {
		rc.Violate("HARNESS", "dial-failed", err.Error(), 0)
		return
	}
	nKeys := 1 + ch.Pick(3, 0)
	released := map[string]Watermark{}
	uniq := uint64(0)
	for k := 0; k < nKeys; k++ {
		w := NoWatermark
		if ch.Pick(4, 0) > 0 {
			src := uint64(ch.Pick(20, 0))
			tgt := src + 1 + uint64(ch.Pick(20, 0))
			uniq++
			if (&Op{Kind: "att", Entries: []Entry{AttEntry(k, src, tgt, uniq)}}).ExecVia(context.Background(), pop.Population, api).OK(0) {
				w.Src, w.Tgt = int64(src), int64(tgt)
			}
		}
		if ch.Pick(4, 0) > 0 {
			slot := uint64(1 + ch.Pick(40, 0))
			uniq++
			if (&Op{Kind: "prop", Entries: []Entry{PropEntry(k, slot, uniq)}}).ExecVia(context.Background(), pop.Population, api).OK(0) {
				w.Slot = int64(slot)
			}
		}
		released[pop.Accts[k].KName] = w
	}
	// Half of the runs: every key signs once more, further on (its records are replaced, not just written).
	if ch.Pick(2, 0) == 1 {
		for k := 0; k < nKeys; k++ {
			w := released[pop.Accts[k].KName]
			if w.Tgt >= 0 {
				uniq++
				src, tgt := uint64(w.Src)+uint64(ch.Pick(2, 0)), uint64(w.Tgt)+1+uint64(ch.Pick(5, 0))
				if (&Op{Kind: "att", Entries: []Entry{AttEntry(k, src, tgt, uniq)}}).ExecVia(context.Background(), pop.Population, api).OK(0) {
					w.Src, w.Tgt = int64(src), int64(tgt)
				}
			}
			if w.Slot >= 0 {
				uniq++
				slot := uint64(w.Slot) + 1 + uint64(ch.Pick(50, 0))
				if (&Op{Kind: "prop", Entries: []Entry{PropEntry(k, slot, uniq)}}).ExecVia(context.Background(), pop.Population, api).OK(0) {
					w.Slot = int64(slot)
				}
			}
			released[pop.Accts[k].KName] = w
		}
		rc.Stats.Inc("daemon_interchange_runs_with_replaced_records", 1)
	}
	cwd := func(tag string) string { return filepath.Join(d.Base, "shell-"+tag) }
	// A third of the C10 runs: the operator runs the import while the daemon is still up.  Refused (the storage is in use)
	// or carried out, an import that reports success binds the daemon that is running.
	if prop == "C10" && ch.Pick(3, 0) == 2 {
		f := icFile{Meta: &icMeta{Version: "5", Root: genesisRoot}}
		live := map[int]Watermark{}
		for k := 0; k < nKeys; k++ {
			w := released[pop.Accts[k].KName]
			nw := Watermark{Slot: max(w.Slot, 0) + int64(1+ch.Pick(50, 0)), Src: max(w.Src, 0) + int64(1+ch.Pick(30, 0))}
			nw.Tgt = max(w.Tgt, nw.Src) + int64(1+ch.Pick(30, 0))
			live[k] = nw
			f.Data = append(f.Data, icData{PubKey: "0x" + hex.EncodeToString(pop.Accts[k].PubKey),
				Blocks: []icBlock{{Slot: strconv.FormatInt(nw.Slot, 10)}}, Atts: []icAtt{{Source: strconv.FormatInt(nw.Src, 10), Target: strconv.FormatInt(nw.Tgt, 10)}}})
		}
		body, _ := json.Marshal(f)
		path := filepath.Join(d.Base, "interchange-live.json")
		if err := os.WriteFile(path, body, 0o600); err != nil {
			t.Fatalf("write: %v", err)
		}
		code, _, _ := daemonCLI(t, d, cwd("import-live"), "--import-slashing-protection", "--genesis-validators-root="+genesisRoot, "--slashing-protection-file="+path)
		rc.Stats.Inc("daemon_cli_imports_while_daemon_running", 1)
		if code == 0 && d.Alive() {
			rc.Stats.Inc("daemon_cli_imports_while_daemon_running_reported_success", 1)
			for k := 0; k < nKeys; k++ {
				nw := live[k]
				uniq++
				if (&Op{Kind: "prop", Entries: []Entry{PropEntry(k, uint64(nw.Slot), uniq)}}).ExecVia(context.Background(), pop.Population, api).OK(0) {
					rc.Violate("C10", "conflicting-proposal-signed-after-import", fmt.Sprintf("key %s: an import run while the daemon was up reported success for a file with slot %d, and the running daemon then signed a proposal at that slot", pop.Accts[k].KName, nw.Slot), k)
					return
				}
				// refused: the import bound the daemon; what it released is unchanged
			}
			for k := 0; k < nKeys; k++ {
				w := released[pop.Accts[k].KName]
				released[pop.Accts[k].KName] = maxW(w, live[k])
			}
		}
	}
	if ch.Pick(2, 0) == 1 {
		d.Stop()
	} else {
		d.Kill()
	}
	code, out, se := daemonCLI(t, d, cwd("export"), "--export-slashing-protection", "--genesis-validators-root="+genesisRoot)
	rc.Stats.Inc("daemon_cli_exports", 1)
	if code != 0 {
		rc.Violate(prop, "cli-export-failed", truncate(se, 400), 0)
		return
	}
	exp, perr := parseExport(pop.Population, out)
	if perr != nil {
		rc.Violate(prop, "cli-export-failed", perr.Error(), 0)
		return
	}
	rc.Stats.Seen("cases", fmt.Sprintf("daemon-interchange/%s/%v/%v", prop, d.cfg.HomeConfig, released))
	for k, w := range released {
		got, ok := exp[k]
		if !ok {
			got = NoWatermark
		}
		if got != w {
			rc.Violate("C11", "export-not-faithful", fmt.Sprintf("the daemon process released for key %s up to %v, the export command run on its directory from another working directory says %v", k, w, got), 0)
			return
		}
	}
	if prop == "C11" {
		rc.Sample = map[string]any{"layer": "export command around a daemon process", "released": fmt.Sprint(released)}
		return
	}
	// C10: import higher values, start the daemon again, probe.
	f := icFile{Meta: &icMeta{Version: "5", Root: genesisRoot}}
	want := map[int]Watermark{}
	for k := 0; k < nKeys; k++ {
		w := released[pop.Accts[k].KName]
		nw := Watermark{Slot: max(w.Slot, 0) + int64(1+ch.Pick(50, 0)), Src: max(w.Src, 0) + int64(1+ch.Pick(30, 0))}
		nw.Tgt = max(w.Tgt, nw.Src) + int64(1+ch.Pick(30, 0))
		want[k] = nw
		f.Data = append(f.Data, icData{PubKey: "0x" + hex.EncodeToString(pop.Accts[k].PubKey),
			Blocks: []icBlock{{Slot: strconv.FormatInt(nw.Slot, 10)}}, Atts: []icAtt{{Source: strconv.FormatInt(nw.Src, 10), Target: strconv.FormatInt(nw.Tgt, 10)}}})
	}
	body, _ := json.Marshal(f)
	path := filepath.Join(d.Base, "interchange.json")
	if err := os.WriteFile(path, body, 0o600); err != nil {
		t.Fatalf("write: %v", err)
	}
	code, _, se = daemonCLI(t, d, cwd("import"), "--import-slashing-protection", "--genesis-validators-root="+genesisRoot, "--slashing-protection-file="+path)
	rc.Stats.Inc("daemon_cli_imports", 1)
	if code != 0 {
		rc.Stats.Inc("imports_rejected", 1)
		rc.Logf("import command failed: %s", truncate(se, 300))
		return
	}
	if err := d.Start(); err != nil {
		rc.Violate("HARNESS", "daemon-did-not-start", err.Error(), 1)
		return
	}
	api, err = d.Signer("client-test01", "")
	if err != nil {
		rc.Violate("HARNESS", "dial-failed", err.Error(), 1)
		return
	}
	for k := 0; k < nKeys; k++ {
		nw := want[k]
		uniq++
		if (&Op{Kind: "prop", Entries: []Entry{PropEntry(k, uint64(nw.Slot), uniq)}}).ExecVia(context.Background(), pop.Population, api).OK(0) {
			rc.Violate("C10", "conflicting-proposal-signed-after-import", fmt.Sprintf("key %s: the import command (run from another working directory) reported success for a file with slot %d, and the daemon started afterwards signed a proposal at that slot", pop.Accts[k].KName, nw.Slot), k)
			return
		}
		uniq++
		if (&Op{Kind: "att", Entries: []Entry{AttEntry(k, uint64(nw.Src), uint64(nw.Tgt), uniq)}}).ExecVia(context.Background(), pop.Population, api).OK(0) {
			rc.Violate("C10", "conflicting-attestation-signed-after-import", fmt.Sprintf("key %s: the import command (run from another working directory) reported success for a file with attestation %d>%d, and the daemon started afterwards signed an attestation with that target", pop.Accts[k].KName, nw.Src, nw.Tgt), k)
			return
		}
		rc.Stats.Inc("probes", 2)
	}
	rc.Sample = map[string]any{"layer": "import command around a daemon process", "released": fmt.Sprint(released), "imported": fmt.Sprint(want)}
}

// runDaemonLifecycle: the generation timeout is what the configuration file says ("process.generation-timeout", a
// duration such as 250ms or 1s).  A genuine peer (the repository's signer-test02 certificate) opens a generation at
// the daemon process over gRPC/TLS; while it is young a second Prepare is refused; once the configured time has passed
// (real time here: the daemon is another process) Abort finds nothing and a new Prepare is accepted.
func runDaemonLifecycle(t *testing.T, rc *RunCtx) {
	InitBLS()
	ch := rc.Ch
	pop := stdFSPopulation(t)
	timeouts := []string{"250ms", "400ms", "900ms", "1s", "1500ms"}
	ts := timeouts[ch.Pick(len(timeouts), 0)]
	timeout, _ := time.ParseDuration(ts)
	d := NewDaemon(t, rc, DaemonCfg{Pop: pop, GenerationTimeout: ts, ExtraPeers: map[string]string{"2": "signer-test02:9"}})
	defer d.Close()
	if err := d.Start(); err != nil {
		rc.Violate("HARNESS", "daemon-did-not-start", err.Error(), 0)
		return
	}
	cc, err := d.Dial("signer-test02", "")
	if err != nil {
		rc.Violate("HARNESS", "dial-failed", err.Error(), 0)
		return
	}
	dkg := pb.NewDKGClient(cc)
	acct := fmt.Sprintf("Wallet 3/life %d", rc.Seed%1000)
	parts := []*pb.Endpoint{{Id: 1, Name: "signer-test01", Port: uint32(d.port)}, {Id: 2, Name: "signer-test02", Port: 9}}
	call := func(f func(ctx context.Context) error) error {
		ctx, cancel := context.WithTimeout(context.Background(), 20*time.Second)
		defer cancel()
		return f(ctx)
	}
	prepare := func() error {
		return call(func(ctx context.Context) error {
			_, err := dkg.Prepare(ctx, &pb.PrepareRequest{Account: acct, Passphrase: []byte("pass"), Threshold: 2, Participants: parts})
			return err
		})
	}
	abort := func() error {
		return call(func(ctx context.Context) error {
			_, err := dkg.Abort(ctx, &pb.AbortRequest{Account: acct})
			return err
		})
	}
	t0 := time.Now()
	if err := prepare(); err != nil {
		rc.Violate("HARNESS", "daemon-call-failed", "first prepare by a genuine peer: "+err.Error(), 0)
		return
	}
	rc.Stats.Inc("daemon_generations_opened", 1)
	err2 := prepare()
	if time.Since(t0) < timeout/2 && err2 == nil {
		rc.Violate("C17", "prepare-accepted-while-active", fmt.Sprintf("daemon process with generation timeout %s: a second Prepare for %q %v after the first was accepted", ts, acct, time.Since(t0)), 1)
		return
	}
	time.Sleep(timeout + timeout/2 + 100*time.Millisecond)
	rc.Stats.Inc("sim_time_ms", int64((timeout+timeout/2)/time.Millisecond))
	aged := time.Since(t0)
	if ch.Pick(2, 0) == 1 {
		if err := abort(); err == nil {
			rc.Violate("C17", "abort-without-session", fmt.Sprintf("daemon process configured with generation timeout %s: Abort for %q was accepted %v after the generation was opened", ts, acct, aged), 2)
			return
		}
	}
	if err := prepare(); err != nil {
		rc.Violate("C17", "prepare-refused-while-idle", fmt.Sprintf("daemon process configured with generation timeout %s: %v after the generation for %q was opened a new Prepare was refused: %v", ts, aged, acct, err), 3)
		return
	}
	rc.Stats.Inc("daemon_generations_expired_as_configured", 1)
	rc.Stats.Seen("cases", fmt.Sprintf("daemon-life/%s/%d", ts, rc.Seed%7))
	rc.Sample = map[string]any{"layer": "generation timeout from the configuration file of a daemon process", "timeout": ts}
}
