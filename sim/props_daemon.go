package sim

import (
	"context"
	"encoding/json"
	"fmt"
	"regexp"
	"strconv"
	"strings"
	"sync"
	"testing"
	"time"

	pb "github.com/wealdtech/eth2-signer-api/pb/v1"
	"google.golang.org/grpc/codes"
	"google.golang.org/grpc/status"
)

// Runners of W7 (daemon.go): the dirk binary as a daemon process.

func stdFSPopulation(t *testing.T) *fsPopulation {
	w1 := WalletSpec{Name: "Wallet 1", Kind: "nd"}
	for i := 0; i < 6; i++ {
		w1.Accounts = append(w1.Accounts, fmt.Sprintf("Account %d", i))
	}
	w2 := WalletSpec{Name: "Wallet 2", Kind: "nd", Accounts: []string{"Account 0", "Account 1", "Account 0/sub"}}
	return newFSPopulation(t, "fsstd", []WalletSpec{w1, w2, {Name: "Wallet 3", Kind: "distributed"}})
}

// transportDown says whether an error of a call means "no answer from the process" (as opposed to an answer that
// says no).
func transportDown(err error) bool {
	if err == nil {
		return false
	}
	c := status.Code(err)
	return c == codes.Unavailable || c == codes.DeadlineExceeded || c == codes.Canceled || c == codes.Internal && strings.Contains(err.Error(), "transport")
}

// runDaemonHist: conflict-seeking histories (as C01/C02) sent to the daemon process over gRPC/TLS by a permitted
// client, sequentially or a few at a time, while the process is killed at drawn storage points or between requests,
// meets failing storage operations, is stopped and started again - always on the same base directory.  What the
// client received is the ledger; what it did not receive was never released.
func runDaemonHist(t *testing.T, rc *RunCtx, prop string) {
	InitBLS()
	ch := rc.Ch
	pop := stdFSPopulation(t)
	all := `{"client-test01": {"Wallet 1": ["All"], "Wallet 2": ["All"]}}`
	home := ch.Pick(4, 0) == 3
	d := NewDaemon(t, rc, DaemonCfg{Pop: pop, PermissionsJSON: all, Pruning: ch.Pick(2, 0) == 1, HomeConfig: home})
	defer d.Close()
	if home {
		rc.Stats.Inc("daemon_runs_configured_from_home_directory", 1)
	}
	ledger := NewLedger()
	nKeys := 1 + ch.Pick(3, 0)
	g := &histGen{rc: rc, ledger: ledger, pop: pop.Population, nKeys: nKeys, big: ch.Pick(3, 0) == 0}
	var api signerAPI
	var desc []string
	start := func() bool {
		var env []string
		switch ch.Pick(6, 0) {
		case 1, 2:
			env = []string{"VERIF_HOOK_KILL_AT=" + strconv.Itoa(1+ch.Pick(16, 0))}
			rc.Stats.Inc("daemon_incarnations_with_a_kill_point", 1)
		case 3:
			fa := strconv.Itoa(1 + ch.Pick(10, 0))
			if ch.Pick(2, 0) == 1 {
				fa += "+"
			}
			env = []string{"VERIF_HOOK_FAIL_AT=" + fa}
			rc.Stats.Inc("daemon_incarnations_with_failing_storage", 1)
		}
		if err := d.Start(env...); err != nil {
			// A daemon that does not come up releases nothing; the history ends here (counted, not judged).
			rc.Stats.Inc("daemon_start_failed", 1)
			rc.Logf("start failed: %v", err)
			return false
		}
		desc = append(desc, fmt.Sprintf("START%v", env))
		var err error
		api, err = d.Signer("client-test01", "")
		if err != nil {
			rc.Violate("HARNESS", "dial-failed", err.Error(), 0)
			return false
		}
		return true
	}
	if !start() {
		if d.Incarnation == 0 {
			rc.Violate("HARNESS", "daemon-did-not-start", d.LogTail(1500), 0)
		}
		return
	}
	kindOf := func() string {
		switch prop {
		case "C01":
			return "C01"
		case "C02":
			return "C02"
		}
		return []string{"C01", "C02"}[ch.Pick(2, 0)]
	}
	nOps := 6 + ch.Pick(20, 0)
	served := 0
	for i := 0; i < nOps && len(rc.Viol) == 0; i++ {
		if !d.Alive() {
			d.Reap()
			rc.Stats.Inc("crash_real_daemon_died_at_storage_point", 1)
			desc = append(desc, "DIED")
			if !start() {
				return
			}
		}
		k := 1
		if ch.Pick(4, 0) == 3 {
			k = 2 + ch.Pick(3, 0) // a few requests at once
		}
		ops := make([]*Op, k)
		res := make([]*OpResult, k)
		for j := range ops {
			ops[j] = g.op(kindOf())
		}
		var wg sync.WaitGroup
		for j := range ops {
			wg.Add(1)
			go func(j int) {
				defer wg.Done()
				res[j] = ops[j].ExecVia(context.Background(), pop.Population, api)
			}(j)
		}
		wg.Wait()
		for j := range ops {
			r := res[j]
			desc = append(desc, ops[j].String())
			rc.Logf("op %d.%d %s -> states=%v err=%v", i, j, ops[j], r.States, r.Err)
			if r.Err != nil {
				if transportDown(r.Err) {
					rc.Stats.Inc("requests_without_an_answer", 1)
				}
				continue // no response message: nothing was released
			}
			served++
			Monitor(rc, ledger, pop.Population, ops[j], r, i, k == 1)
		}
		rc.Stats.Inc("daemon_requests", int64(k))
		switch ch.Pick(12, 0) {
		case 10:
			d.Kill()
			rc.Stats.Inc("crash_real_daemon_killed_between_requests", 1)
			desc = append(desc, "KILL")
			if !start() {
				return
			}
		case 11:
			d.Stop()
			rc.Stats.Inc("clean_restarts", 1)
			desc = append(desc, "STOP")
			if !start() {
				return
			}
		}
	}
	if prop == "C03" && d.Incarnation > 1 {
		// In C03's layer the pairwise ledger spans the incarnations of the process: a conflicting pair released by
		// processes that followed one another on the directory is what C03 is about.
		for i := range rc.Viol {
			if v := rc.Viol[i]; v.Property == "C01" || v.Property == "C02" {
				rc.Viol[i] = Violation{Property: "C03", Key: "conflicting-signatures-released-by-daemon-processes", Detail: fmt.Sprintf("%d daemon processes followed one another on the directory (%v): %s", d.Incarnation, desc, v.Detail), Step: v.Step}
			}
		}
	}
	if ledger.N >= 1 {
		rc.Stats.Seen("cases", hexShort(h32(desc)))
	}
	if len(desc) > 30 {
		desc = append(desc[:30], "...")
	}
	rc.Sample = map[string]any{"layer": "the dirk binary as a daemon process over gRPC/TLS", "keys": nKeys, "history": desc, "released": ledger.N, "answered": served}
}

// runDaemonEdge: what the configuration file says about administrator addresses reaches the rules (C05), and what it
// says about the certificate authority reaches the TLS edge (C19) - through main.go, not through the simulator's own
// wiring.
func runDaemonEdge(t *testing.T, rc *RunCtx, prop string) {
	InitBLS()
	ch := rc.Ch
	pop := stdFSPopulation(t)
	adminSets := [][]string{nil, {"127.0.0.2"}, {"127.0.0.1", "127.0.0.3"}, {"127.0.0.20", "10.0.0.1"}}
	admins := adminSets[ch.Pick(len(adminSets), 0)]
	noCA := prop == "C19" && ch.Pick(3, 0) == 2
	d := NewDaemon(t, rc, DaemonCfg{Pop: pop, AdminIPs: admins, NoCA: noCA})
	defer d.Close()
	if err := d.Start(); err != nil {
		rc.Violate("HARNESS", "daemon-did-not-start", err.Error(), 0)
		return
	}
	listed := func(ip string) bool {
		for _, a := range admins {
			if a == ip {
				return true
			}
		}
		return false
	}
	uniq := uint64(0)
	if prop == "C05" {
		for _, ip := range []string{"127.0.0.1", "127.0.0.2", "127.0.0.3", "127.0.0.20"} {
			cc, err := d.Dial("client-test01", ip)
			if err != nil {
				rc.Violate("HARNESS", "dial-failed", err.Error(), 0)
				return
			}
			for _, multi := range []bool{false, true} {
				uniq++
				ctx, cancel := context.WithTimeout(context.Background(), 20*time.Second)
				dom := MkDomain(DomExit, uniq)
				var st pb.ResponseState
				var sig []byte
				var err error
				if multi {
					var r *pb.MultisignResponse
					r, err = pb.NewSignerClient(cc).Multisign(ctx, &pb.MultisignRequest{Requests: []*pb.SignRequest{
						{Id: &pb.SignRequest_Account{Account: "Wallet 1/Account 1"}, Data: h32("h", uniq), Domain: MkDomain([4]byte{7, 0, 0, 0}, uniq)},
						{Id: &pb.SignRequest_Account{Account: "Wallet 1/Account 0"}, Data: h32("exit", uniq), Domain: dom}}})
					if err == nil && len(r.GetResponses()) == 2 {
						st, sig = r.GetResponses()[1].GetState(), r.GetResponses()[1].GetSignature()
					}
				} else {
					var r *pb.SignResponse
					r, err = pb.NewSignerClient(cc).Sign(ctx, &pb.SignRequest{Id: &pb.SignRequest_Account{Account: "Wallet 1/Account 0"}, Data: h32("exit", uniq), Domain: dom})
					if err == nil {
						st, sig = r.GetState(), r.GetSignature()
					}
				}
				cancel()
				if err != nil {
					rc.Violate("HARNESS", "daemon-call-failed", err.Error(), 0)
					return
				}
				rc.Stats.Inc("daemon_exit_requests", 1)
				signed := st == pb.ResponseState_SUCCEEDED || len(sig) > 0
				rc.Stats.Seen("cases", fmt.Sprintf("daemon-exit/%v/%s/%v/%v", admins, ip, multi, signed))
				if signed && !listed(ip) {
					rc.Violate("C05", "exit-signed-for-unlisted-source", fmt.Sprintf("the daemon process, configured with administrator addresses %v, signed a voluntary exit (multi=%v) for a client connecting from %s", admins, multi, ip), 0)
					return
				}
				if signed {
					rc.Stats.Inc("daemon_exit_signed_for_listed_source", 1)
				} else {
					rc.Stats.Inc("daemon_exit_refused", 1)
				}
			}
		}
		rc.Sample = map[string]any{"layer": "administrator addresses from the configuration file of a daemon process", "admin_ips": fmt.Sprint(admins)}
		return
	}
	// C19: a slice of the credential table against the daemon process.
	w := getTLSWorld(t, rc)
	srv := &tlsServer{addr: d.Addr}
	creds := []string{"plaintext", "tls-no-client-cert", "self-signed-permitted-name", "other-authority-permitted-name", "host-trust-store-authority-permitted-name",
		"valid-unpermitted-client", "valid-client-test01", "valid-client-test02", "self-signed-permitted-name-followed-by-genuine-client-certificate",
		"valid-client-test02-followed-by-forged-client-test01", "issued-subject-client-test02-alt-name-client-test01-only"}
	untrusted := map[string]bool{"plaintext": true, "tls-no-client-cert": true, "self-signed-permitted-name": true, "other-authority-permitted-name": true,
		"host-trust-store-authority-permitted-name": true, "self-signed-permitted-name-followed-by-genuine-client-certificate": true}
	identity := map[string]string{"valid-unpermitted-client": "client-test03", "valid-client-test01": "client-test01", "valid-client-test02": "client-test02",
		"valid-client-test02-followed-by-forged-client-test01": "client-test02", "issued-subject-client-test02-alt-name-client-test01-only": "client-test02"}
	mayUse := map[string]string{"client-test01": "Wallet 1", "client-test02": "Wallet 2"}
	for _, cred := range creds {
		cc, err := w.dial(srv, cred)
		if err != nil {
			continue
		}
		for _, wl := range []string{"Wallet 1", "Wallet 2"} {
			uniq++
			ctx, cancel := context.WithTimeout(context.Background(), 20*time.Second)
			var got bool
			var what string
			if ch.Pick(2, 0) == 1 {
				r, err := pb.NewListerClient(cc).ListAccounts(ctx, &pb.ListAccountsRequest{Paths: []string{wl}})
				got, what = err == nil && len(r.GetAccounts()) > 0, "a listing"
				if err == nil && untrusted[cred] || noCA && err == nil {
					got, what = true, fmt.Sprintf("a response message to ListAccounts (%d accounts)", len(r.GetAccounts()))
				}
			} else {
				r, err := pb.NewSignerClient(cc).Sign(ctx, &pb.SignRequest{Id: &pb.SignRequest_Account{Account: wl + "/Account 0"}, Data: h32("d19", uniq), Domain: MkDomain([4]byte{7, 0, 0, 0}, uniq)})
				got, what = err == nil && (r.GetState() == pb.ResponseState_SUCCEEDED || len(r.GetSignature()) > 0), "a signature"
				if err == nil && untrusted[cred] || noCA && err == nil {
					got, what = true, fmt.Sprintf("a response message to Sign (state %v)", r.GetState())
				}
			}
			cancel()
			rc.Stats.Inc("daemon_credential_calls", 1)
			rc.Stats.Seen("cases", fmt.Sprintf("daemon-cred/%v/%s/%s/%v", noCA, cred, wl, got))
			switch {
			case got && (untrusted[cred] || noCA):
				rc.Violate("C19", "served-without-valid-certificate", fmt.Sprintf("the daemon process (authority configured: %v) gave %s for %s to a caller with credential %s", !noCA, what, wl, cred), 0)
			case got && mayUse[identity[cred]] != wl:
				rc.Violate("C19", "identity-not-taken-from-verified-certificate", fmt.Sprintf("the daemon process gave %s for %s to a caller with credential %s (verified subject %s)", what, wl, cred, identity[cred]), 0)
			case got:
				rc.Stats.Inc("daemon_permitted_calls_served", 1)
			}
		}
		_ = cc.Close()
		if len(rc.Viol) > 0 {
			return
		}
	}
	rc.Sample = map[string]any{"layer": "credential table against a daemon process", "authority_configured": !noCA}
}

func init() {
	for _, k := range []string{"C01:daemon", "C02:daemon", "C03:daemon", "C05:daemon", "C19:daemon", "C07:daemon", "C18:daemon"} {
		noBubble[k] = true
	}
}

func permFSPopulation(t *testing.T) *fsPopulation {
	return newFSPopulation(t, "fsperm", append(append([]WalletSpec{}, permWallets...), WalletSpec{Name: "Dist", Kind: "distributed"}))
}

// runDaemonPerm: the permission table is what the operator wrote into the daemon's configuration file - clients,
// for each client its entries in the order written, patterns in the spelling written - and the daemon process is
// held to the reference evaluator on exactly that (C07: operations; C18: listings).  The clients are the three
// genuine client certificates of the repository's test resources.
func runDaemonPerm(t *testing.T, rc *RunCtx, prop string) {
	InitBLS()
	ch := rc.Ch
	pop := permFSPopulation(t)
	rt0, drawn := drawTable(rc)
	names := []string{"client-test01", "client-test02", "client-test03"}
	rt := refTable{}
	var sb strings.Builder
	sb.WriteString("{")
	for i, c := range drawn {
		if i >= len(names) {
			break
		}
		if i > 0 {
			sb.WriteString(", ")
		}
		fmt.Fprintf(&sb, "%q: {", names[i])
		seen := map[string]bool{}
		first := true
		for _, e := range rt0[c] {
			// a mapping has one value per key, and its keys are compared without regard to case by the configuration reader
			if seen[strings.ToLower(e.Path)] {
				continue
			}
			seen[strings.ToLower(e.Path)] = true
			rt[names[i]] = append(rt[names[i]], e)
			if !first {
				sb.WriteString(", ")
			}
			first = false
			ops, _ := json.Marshal(e.Operations)
			key, _ := json.Marshal(e.Path)
			fmt.Fprintf(&sb, "%s: %s", key, ops)
		}
		sb.WriteString("}")
	}
	sb.WriteString("}")
	d := NewDaemon(t, rc, DaemonCfg{Pop: pop, PermissionsJSON: sb.String()})
	defer d.Close()
	if err := d.Start(); err != nil {
		rc.Violate("HARNESS", "daemon-did-not-start", err.Error(), 0)
		return
	}
	conns := map[string]*grpcConn{}
	for _, n := range names {
		cc, err := d.Dial(n, "")
		if err != nil {
			rc.Violate("HARNESS", "dial-failed", err.Error(), 0)
			return
		}
		conns[n] = &grpcConn{signer: remoteSigner{cl: pb.NewSignerClient(cc), timeout: 20 * time.Second}, lister: pb.NewListerClient(cc), acct: pb.NewAccountManagerClient(cc)}
	}
	epoch := map[string]uint64{}
	var desc []string
	nOps := 10 + ch.Pick(25, 0)
	for i := 0; i < nOps && len(rc.Viol) == 0; i++ {
		client := names[ch.Pick(len(names), 0)]
		cn := conns[client]
		a := pop.Accts[ch.Pick(len(pop.Accts), 0)]
		if prop == "C18" {
			// A listing of one or two wallets (sometimes with an account pattern).
			wl := permWallets[ch.Pick(len(permWallets), 0)].Name
			paths := []string{wl}
			if ch.Pick(3, 0) == 2 {
				paths = []string{wl + "/" + []string{"acc.*", ".*1", "acc1|Acc2", "val-.*"}[ch.Pick(4, 0)]}
			}
			if ch.Pick(3, 0) == 2 {
				paths = append(paths, permWallets[ch.Pick(len(permWallets), 0)].Name)
			}
			ctx, cancel := context.WithTimeout(context.Background(), 20*time.Second)
			res, err := cn.lister.ListAccounts(ctx, &pb.ListAccountsRequest{Paths: paths})
			cancel()
			if err != nil {
				rc.Violate("HARNESS", "daemon-call-failed", err.Error(), i)
				return
			}
			got := map[string]bool{}
			for _, x := range res.GetAccounts() {
				got[x.GetName()] = true
				wn, an := splitPath(x.GetName())
				if !rt.allows(client, wn, an, "Access account") {
					rc.Violate("C18", "inaccessible-account-listed", fmt.Sprintf("the daemon process listed %s for %s (paths %q), who lacks Access account on it; permissions as configured: %s", x.GetName(), client, paths, rt), i)
					return
				}
				if k := pop.ByPath(x.GetName()); k == nil || string(k.PubKey) != string(x.GetPublicKey()) {
					rc.Violate("C18", "wrong-public-key", fmt.Sprintf("the daemon process listed %s with a key that is not its own", x.GetName()), i)
					return
				}
			}
			for _, acc := range pop.Accts {
				if !rt.allows(client, acc.Wallet, acc.Name, "Access account") {
					continue
				}
				match := false
				for _, p := range paths {
					wn, ap := splitPath(p)
					if wn != acc.Wallet {
						continue
					}
					if ap == "" {
						match = true
						continue
					}
					// requested account patterns are matched as written (case matters), on the whole name
					if re, err := regexp.Compile(`\A(?:` + ap + `)\z`); err == nil && re.MatchString(acc.Name) {
						match = true
					}
				}
				if match {
					rc.Stats.Inc("daemon_completeness_obligations", 1)
					if !got[acc.Path] {
						rc.Violate("C18", "accessible-account-missing", fmt.Sprintf("the daemon process did not list %s for %s (paths %q) although the configured permissions give access: %s", acc.Path, client, paths, rt), i)
						return
					}
				}
			}
			rc.Stats.Inc("daemon_listings", 1)
			rc.Stats.Seen("cases", fmt.Sprintf("daemon-list/%v/%d", paths, len(got)))
			desc = append(desc, fmt.Sprintf("list %s %q -> %d", client, paths, len(got)))
			continue
		}
		op := []string{"Sign", "Sign beacon attestation", "Sign beacon proposal", "Access account", "Lock account", "Unlock account"}[ch.Pick(6, 0)]
		epoch[a.KName]++
		ep := epoch[a.KName]
		byKey := ch.Pick(3, 0) == 2
		served := false
		var callErr error
		switch op {
		case "Sign":
			o := &Op{Kind: "gen", Entries: []Entry{GenEntry(a.idx, MkDomain([4]byte{7, 0, 0, 0}, ep), uint64(i+1))}}
			o.Entries[0].ByKey = byKey
			r := o.ExecVia(context.Background(), pop.Population, cn.signer)
			served, callErr = r.OK(0), r.Err
		case "Sign beacon attestation":
			o := &Op{Kind: "att", Entries: []Entry{AttEntry(a.idx, ep, ep+1, uint64(i+1))}}
			o.Entries[0].ByKey = byKey
			r := o.ExecVia(context.Background(), pop.Population, cn.signer)
			served, callErr = r.OK(0), r.Err
		case "Sign beacon proposal":
			o := &Op{Kind: "prop", Entries: []Entry{PropEntry(a.idx, ep, uint64(i+1))}}
			o.Entries[0].ByKey = byKey
			r := o.ExecVia(context.Background(), pop.Population, cn.signer)
			served, callErr = r.OK(0), r.Err
		case "Access account":
			ctx, cancel := context.WithTimeout(context.Background(), 20*time.Second)
			res, err := cn.lister.ListAccounts(ctx, &pb.ListAccountsRequest{Paths: []string{a.Wallet}})
			cancel()
			callErr = err
			if err == nil {
				for _, x := range res.GetAccounts() {
					if x.GetName() == a.Path {
						served = true
					}
				}
			}
		case "Lock account":
			ctx, cancel := context.WithTimeout(context.Background(), 20*time.Second)
			res, err := cn.acct.Lock(ctx, &pb.LockAccountRequest{Account: a.Path})
			cancel()
			served, callErr = err == nil && res.GetState() == pb.ResponseState_SUCCEEDED, err
		case "Unlock account":
			ctx, cancel := context.WithTimeout(context.Background(), 20*time.Second)
			res, err := cn.acct.Unlock(ctx, &pb.UnlockAccountRequest{Account: a.Path, Passphrase: []byte("pass")})
			cancel()
			served, callErr = err == nil && res.GetState() == pb.ResponseState_SUCCEEDED, err
		}
		if callErr != nil && transportDown(callErr) {
			rc.Violate("HARNESS", "daemon-call-failed", callErr.Error(), i)
			return
		}
		want := rt.allows(client, a.Wallet, a.Name, op)
		what := fmt.Sprintf("%s by %s on %s bykey=%v: served=%v, configured permissions say %v", op, client, a.Path, byKey, served, want)
		desc = append(desc, what)
		rc.Logf("%s", what)
		rc.Stats.Inc("daemon_permission_decisions", 1)
		rc.Stats.Seen("cases", fmt.Sprintf("daemon-perm/%s|%s|%v|%v", op, a.Path, want, served))
		if served && !want {
			rc.Violate("C07", "served-without-permission", fmt.Sprintf("the daemon process carried out %s although the permissions in its configuration file, read in the order and spelling written, refuse it: %s", what, rt), i)
			return
		}
		if served {
			rc.Stats.Inc("daemon_operations_served", 1)
		} else if want {
			rc.Stats.Inc("daemon_allowed_but_not_served", 1)
		}
	}
	if len(desc) > 12 {
		desc = desc[:12]
	}
	rc.Sample = map[string]any{"layer": "permissions from the configuration file of a daemon process", "permissions": rt.String(), "events": desc}
}

type grpcConn struct {
	signer signerAPI
	lister pb.ListerClient
	acct   pb.AccountManagerClient
}
