package sim

import (
	"bytes"
	"context"
	"crypto/sha256"
	"encoding/binary"
	"fmt"
	"io"
	"sync"
	"testing"

	"github.com/attestantio/dirk/util"
	"github.com/herumi/bls-eth-go-binary/bls"
	pb "github.com/wealdtech/eth2-signer-api/pb/v1"
	distributed "github.com/wealdtech/go-eth2-wallet-distributed"
	e2wtypes "github.com/wealdtech/go-eth2-wallet-types/v2"
)

// seedReader is a deterministic byte stream for the BLS library's randomness.
type seedReader struct {
	mu  sync.Mutex
	key [32]byte
	ctr uint64
	buf []byte
}

func newSeedReader(seed uint64) *seedReader {
	r := &seedReader{}
	binary.LittleEndian.PutUint64(r.key[:], seed)
	r.key = sha256.Sum256(r.key[:])
	return r
}

func (r *seedReader) Read(p []byte) (int, error) {
	r.mu.Lock()
	defer r.mu.Unlock()
	for i := range p {
		if len(r.buf) == 0 {
			var c [8]byte
			binary.LittleEndian.PutUint64(c[:], r.ctr)
			r.ctr++
			h := sha256.Sum256(append(r.key[:], c[:]...))
			r.buf = h[:]
		}
		p[i] = r.buf[0]
		r.buf = r.buf[1:]
	}
	return len(p), nil
}

var _ io.Reader = (*seedReader)(nil)

// dkgOutcome is what the client of a Generate call saw.
type dkgOutcome struct {
	// Prompt, set by the client task itself: what went wrong when it used the account on the participants the moment it
	// was told the generation had succeeded (before anything else of the schedule was given a turn on its behalf).
	Prompt       string
	task         *Task
	State        pb.ResponseState
	PubKey       []byte
	Participants []*pb.Endpoint
	Message      string
	Panic        string
	Done         bool
}

// spawnGenerate submits a Generate request to a node as a scheduled task.
func (c *Cluster) spawnGenerate(n *Node, client, account string, t, parts uint32) *dkgOutcome {
	out := &dkgOutcome{}
	out.task = c.S.Spawn("generate:"+account, n.Inst, func(_ *Task) {
		defer func() {
			if r := recover(); r != nil {
				out.Panic = fmt.Sprint(r)
				n.Panicked = "generate: " + out.Panic
			}
			out.Done = true
		}()
		pass := []byte("pass")
		if c.OmitPassphrase {
			pass = nil // the instances fall back on their configured generation passphrase
		}
		res, err := n.Inst.AcctH.Generate(n.Inst.ClientCtx(client, ""), &pb.GenerateRequest{Account: account, Passphrase: pass, SigningThreshold: t, Participants: parts})
		if err != nil {
			out.State = pb.ResponseState_FAILED
			out.Message = err.Error()
			return
		}
		out.State, out.PubKey, out.Participants, out.Message = res.GetState(), res.GetPublicKey(), res.GetParticipants(), res.GetMessage()
		if out.State == pb.ResponseState_SUCCEEDED && c.PromptUse {
			// The client uses the new account at once, on every participant it was told about.
			for _, ep := range out.Participants {
				p := c.NodeByID(ep.GetId())
				if p == nil {
					continue
				}
				if st, sig := p.partialSign(client, account, h32("prompt use", account), MkDomain([4]byte{7, 0, 0, 0}, 11)); st != pb.ResponseState_SUCCEEDED || len(sig) == 0 {
					out.Prompt = fmt.Sprintf("%s could not sign with %s the moment the client had been told the generation succeeded (state %v)", p.Name, account, st)
					return
				}
			}
		}
	})
	return out
}

// spawnGenerateRetrying is spawnGenerate for a client that asks again (up to attempts times) when it is told the
// generation failed; the outcome is that of its last attempt.
func (c *Cluster) spawnGenerateRetrying(n *Node, client, account string, t, parts uint32, attempts int) *dkgOutcome {
	out := &dkgOutcome{}
	out.task = c.S.Spawn("generate:"+account, n.Inst, func(_ *Task) {
		defer func() {
			if r := recover(); r != nil {
				out.Panic = fmt.Sprint(r)
				n.Panicked = "generate: " + out.Panic
			}
			out.Done = true
		}()
		for a := 0; a < attempts; a++ {
			res, err := n.Inst.AcctH.Generate(n.Inst.ClientCtx(client, ""), &pb.GenerateRequest{Account: account, Passphrase: []byte("pass"), SigningThreshold: t, Participants: parts})
			if err != nil {
				out.State, out.Message = pb.ResponseState_FAILED, err.Error()
				continue
			}
			out.State, out.PubKey, out.Participants, out.Message = res.GetState(), res.GetPublicKey(), res.GetParticipants(), res.GetMessage()
			if out.State == pb.ResponseState_SUCCEEDED {
				return
			}
		}
	})
	return out
}

// storedAccount reads an account back from a node's wallet store (not from any cache).
func (n *Node) storedAccount(path string) e2wtypes.Account {
	var wname, aname string
	for i := 0; i < len(path); i++ {
		if path[i] == '/' {
			wname, aname = path[:i], path[i+1:]
			break
		}
	}
	ctx := context.Background()
	w, err := distributed.OpenWallet(ctx, wname, n.Pop.Store, n.Pop.Encryptor)
	if err != nil {
		return nil
	}
	a, err := w.(e2wtypes.WalletAccountByNameProvider).AccountByName(ctx, aname)
	if err != nil {
		return nil
	}
	return a
}

// hasAccount reports whether the node holds the account in its store or in its fetcher cache.
func (n *Node) hasAccount(path string) (inStore, inCache bool) {
	inStore = n.storedAccount(path) != nil
	_, _, err := n.Inst.FetcherW.Service.FetchAccount(context.Background(), path)
	return inStore, err == nil
}

// partialSign asks a node's real signer for a generic signature with the distributed account.
func (n *Node) partialSign(client, path string, data, domain []byte) (pb.ResponseState, []byte) {
	res, err := n.Inst.SignerH.Sign(n.Inst.ClientCtx(client, ""), &pb.SignRequest{Id: &pb.SignRequest_Account{Account: path}, Data: data, Domain: domain})
	if err != nil || res == nil {
		return pb.ResponseState_FAILED, nil
	}
	return res.GetState(), res.GetSignature()
}

func subsets(n, k int) [][]int {
	var out [][]int
	var rec func(start int, cur []int)
	rec = func(start int, cur []int) {
		if len(cur) == k {
			out = append(out, append([]int{}, cur...))
			return
		}
		for i := start; i < n; i++ {
			rec(i+1, append(cur, i))
		}
	}
	rec(0, nil)
	return out
}

func recoverSig(ids []uint64, sigs [][]byte) ([]byte, error) {
	bids := make([]bls.ID, len(ids))
	bsigs := make([]bls.Sign, len(ids))
	for i := range ids {
		bids[i] = *util.BLSID(ids[i])
		if err := bsigs[i].Deserialize(sigs[i]); err != nil {
			return nil, err
		}
	}
	var out bls.Sign
	if err := out.Recover(bsigs, bids); err != nil {
		return nil, err
	}
	return out.Serialize(), nil
}

// checkGenerated is C12's oracle for a generation that reported success.
func (c *Cluster) checkGenerated(prop, path string, t uint32, parts []*Node, out *dkgOutcome, step int) {
	rc := c.rc
	bad := func(key, f string, a ...any) { rc.Violate(prop, key, fmt.Sprintf(f, a...), step) }
	if len(out.PubKey) != 48 {
		bad("no-public-key", "generation of %s reported success without a 48-byte public key", path)
		return
	}
	if len(out.Participants) != len(parts) {
		bad("participant-list", "client was told %d participants, %d took part", len(out.Participants), len(parts))
	}
	var refVV [][]byte
	// The list the client was given is the list: it names the instances that took part (each under the port the initiator
	// reaches it by), and every participant stores exactly it.
	wantParts := map[uint64]string{}
	for _, ep := range out.Participants {
		wantParts[ep.GetId()] = fmt.Sprintf("%s:%d", ep.GetName(), ep.GetPort())
	}
	for _, p := range parts {
		if w := wantParts[p.ID]; w != fmt.Sprintf("%s:%d", p.Name, p.Port) && w != fmt.Sprintf("%s:%d", p.Name, p.Port+forwardedPortOffset) {
			bad("participant-list", "client was told %q for participant %d, which is %s:%d", w, p.ID, p.Name, p.Port)
		}
	}
	for _, p := range parts {
		a := p.storedAccount(path)
		if a == nil {
			bad("account-missing", "participant %s holds no account %s after a successful generation", p.Name, path)
			return
		}
		da := a.(e2wtypes.DistributedAccount)
		if !bytes.Equal(da.CompositePublicKey().Marshal(), out.PubKey) {
			bad("composite-key-differs", "participant %s stored composite key %x, client was given %x", p.Name, da.CompositePublicKey().Marshal(), out.PubKey)
		}
		if da.SigningThreshold() != t {
			bad("threshold-differs", "participant %s stored threshold %d, requested %d", p.Name, da.SigningThreshold(), t)
		}
		got := da.Participants()
		if len(got) != len(wantParts) {
			bad("participant-list", "participant %s stored %d participants, want %d", p.Name, len(got), len(wantParts))
		}
		for id, addr := range wantParts {
			if got[id] != addr {
				bad("participant-list", "participant %s stored %q for id %d, want %q", p.Name, got[id], id, addr)
			}
		}
		vv := a.(e2wtypes.AccountVerificationVectorProvider).VerificationVector()
		ser := make([][]byte, len(vv))
		pks := make([]bls.PublicKey, len(vv))
		for i := range vv {
			ser[i] = vv[i].Marshal()
			if err := pks[i].Deserialize(ser[i]); err != nil {
				bad("verification-vector", "participant %s: bad vector element", p.Name)
				return
			}
		}
		if uint32(len(vv)) != t {
			bad("verification-vector", "participant %s stored a verification vector of %d entries for threshold %d", p.Name, len(vv), t)
		}
		if refVV == nil {
			refVV = ser
		} else if len(refVV) != len(ser) {
			bad("verification-vector", "participants disagree on the verification vector length")
		} else {
			for i := range ser {
				if !bytes.Equal(ser[i], refVV[i]) {
					bad("verification-vector", "participants disagree on verification vector entry %d", i)
				}
			}
		}
		if len(ser) > 0 && !bytes.Equal(ser[0], out.PubKey) {
			bad("composite-key-differs", "participant %s: first vector entry is not the composite key", p.Name)
		}
		// The share must be the vector evaluated at the participant's own id.
		var want bls.PublicKey
		if err := want.Set(pks, util.BLSID(p.ID)); err != nil {
			bad("verification-vector", "cannot evaluate vector at id %d: %v", p.ID, err)
			return
		}
		if !bytes.Equal(want.Serialize(), a.PublicKey().Marshal()) {
			bad("share-inconsistent", "participant %s (id %d): share public key is not the verification vector evaluated at its id", p.Name, p.ID)
		}
		// Usable immediately, without restart: listed and signs.
		lres, err := p.Inst.ListerH.ListAccounts(p.Inst.ClientCtx("client1", ""), &pb.ListAccountsRequest{Paths: []string{"Wallet 3"}})
		found := false
		if err == nil && lres != nil {
			for _, d := range lres.GetDistributedAccounts() {
				if d.GetName() == path && bytes.Equal(d.GetCompositePublicKey(), out.PubKey) && bytes.Equal(d.GetPublicKey(), a.PublicKey().Marshal()) && d.GetSigningThreshold() == t {
					found = true
				}
			}
		}
		if !found {
			bad("not-listed", "participant %s does not list %s (with its composite and share keys) right after generation", p.Name, path)
		}
	}
	if len(rc.Viol) > 0 {
		return
	}
	// Threshold signing through the real signers.
	data, domain := h32("dkg data", path), MkDomain([4]byte{7, 0, 0, 0}, 99)
	root := SigningRoot(data, domain)
	sigs := make([][]byte, len(parts))
	for i, p := range parts {
		st, sig := p.partialSign("client1", path, data, domain)
		if st != pb.ResponseState_SUCCEEDED || len(sig) == 0 {
			bad("cannot-sign", "participant %s cannot sign with %s right after generation (state %v)", p.Name, path, st)
			return
		}
		sigs[i] = sig
		// ... and when the account is addressed by its (share) public key.
		if a := p.storedAccount(path); a != nil {
			res, err := p.Inst.SignerH.Sign(p.Inst.ClientCtx("client1", ""), &pb.SignRequest{Id: &pb.SignRequest_PublicKey{PublicKey: a.PublicKey().Marshal()}, Data: data, Domain: domain})
			if err != nil || res.GetState() != pb.ResponseState_SUCCEEDED || !bytes.Equal(res.GetSignature(), sig) {
				bad("cannot-sign", "participant %s cannot sign with %s when it is addressed by its share public key (state %v)", p.Name, path, res.GetState())
				return
			}
		}
		var bs bls.Sign
		var pk bls.PublicKey
		a := p.storedAccount(path)
		if bs.Deserialize(sig) != nil || pk.Deserialize(a.PublicKey().Marshal()) != nil || !bs.VerifyByte(&pk, root) {
			bad("invalid-partial-signature", "participant %s: partial signature does not verify under its share key", p.Name)
		}
	}
	var comp bls.PublicKey
	if err := comp.Deserialize(out.PubKey); err != nil {
		bad("no-public-key", "composite key does not deserialize")
		return
	}
	check := func(k int, wantValid bool) {
		for _, sub := range subsets(len(parts), k) {
			ids := make([]uint64, k)
			ss := make([][]byte, k)
			for j, x := range sub {
				ids[j], ss[j] = parts[x].ID, sigs[x]
			}
			rs, err := recoverSig(ids, ss)
			valid := false
			if err == nil {
				var s bls.Sign
				valid = s.Deserialize(rs) == nil && s.VerifyByte(&comp, root)
			}
			rc.Stats.Inc("threshold_subsets_checked", 1)
			if valid != wantValid {
				if wantValid {
					bad("threshold-subset-fails", "signatures of participants %v (t=%d) do not combine into a signature valid under the composite key", ids, t)
				} else {
					bad("fewer-than-threshold-suffice", "signatures of only %d participants %v combine into a valid signature although t=%d", k, ids, t)
				}
				return
			}
		}
	}
	check(int(t), true)
	if t > 1 {
		check(int(t)-1, false)
	}
}

// noAccountAnywhere is C13's oracle: no instance holds the account, in its store or in its cache.
func (c *Cluster) noAccountAnywhere(prop, path, why string, step int) {
	for _, n := range c.Nodes {
		st, ca := n.hasAccount(path)
		if st || ca {
			c.rc.Violate(prop, "account-exists-after-failed-generation", fmt.Sprintf("%s: instance %s holds account %s (store=%v cache=%v)", why, n.Name, path, st, ca), step)
			return
		}
	}
}

func (c *Cluster) anyPanic() string {
	for _, n := range c.Nodes {
		if n.Panicked != "" {
			return n.Name + ": " + n.Panicked
		}
	}
	return ""
}

func idSet(rc *RunCtx, kind, n int) []uint64 {
	ids := make([]uint64, n)
	switch kind {
	case 0:
		for i := range ids {
			ids[i] = uint64(i + 1)
		}
	case 1: // large random
		seen := map[uint64]bool{}
		for i := range ids {
			v := rc.Ch.U64()>>3 + 1000
			for seen[v] {
				v++
			}
			seen[v] = true
			ids[i] = v
		}
	case 2: // near 2^64, incl. 2^64-1 itself
		stride := uint64(1 + rc.Ch.Pick(3, 0))
		for i := range ids {
			ids[len(ids)-1-i] = ^uint64(0) - uint64(i)*stride
		}
	default: // sparse small
		v := uint64(0)
		for i := range ids {
			v += uint64(1 + rc.Ch.Pick(50, 0))
			ids[i] = v
		}
	}
	return ids
}

func permute(rc *RunCtx, ids []uint64) []uint64 {
	out := append([]uint64{}, ids...)
	for i := len(out) - 1; i > 0; i-- {
		j := rc.Ch.Pick(i+1, 0)
		out[i], out[j] = out[j], out[i]
	}
	return out
}

// ntTable is the complete table of (n, t) pairs for n <= 7, including every t outside the permitted range.
func ntTable() [][2]int {
	var out [][2]int
	for n := 1; n <= 7; n++ {
		for t := 0; t <= n+1; t++ {
			out = append(out, [2]int{n, t})
		}
	}
	return out
}

// runDKG is the body of C12.
func runDKG(t *testing.T, rc *RunCtx) {
	ch := rc.Ch
	bls.SetRandFunc(newSeedReader(rc.Seed))
	defer bls.SetRandFunc(nil)
	table := ntTable()
	nt := table[int(rc.Seed%uint64(len(table)))]
	n, th := nt[0], nt[1]
	extra := ch.Pick(3, 0) // configured peers beyond the participants
	if n == 7 {
		extra = 0
	}
	ids := idSet(rc, ch.Pick(4, 0), n+extra)
	order := permute(rc, ids)
	s := NewSched(rc, SchedCfg{StayBias: []float64{0, 0.5}[ch.Pick(2, 0)], MaxSteps: 20000})
	defer s.Close()
	// A third of the runs: the instances' peer tables differ (one lists another under a forwarded port).  What is stored
	// with the account is the list the generation was run with, on every participant.
	fwd := ch.Pick(3, 0) == 2
	if fwd {
		rc.Stats.Inc("runs_with_differing_peer_tables", 1)
	}
	c := NewCluster(t, rc, s, ClusterCfg{IDs: ids, Order: order, NdAccounts: 1, ForwardedPorts: fwd})
	defer c.Close()
	initiator := c.Nodes[ch.Pick(len(c.Nodes), 0)]
	// The client signs with the new account on every participant the instant it has its answer.
	c.PromptUse = true
	// A third of the runs: clients send no passphrase of their own with their generation requests.
	if ch.Pick(3, 0) == 2 {
		c.OmitPassphrase = true
		rc.Stats.Inc("runs_without_client_passphrase", 1)
	}
	parts := make([]*Node, 0, n)
	if n > 1 {
		for _, id := range order[:n] {
			parts = append(parts, c.NodeByID(id))
		}
	} else {
		parts = append(parts, initiator)
	}
	valid := th <= n && th > n/2
	tamper := ""
	if valid && n > 1 && ch.Pick(4, 0) == 3 {
		tamper = []string{"tamper-reply-pubkey", "tamper-reply-sig", "tamper-reply-empty-pubkey", "tamper-reply-empty-sig"}[ch.Pick(4, 0)]
		victim := parts[ch.Pick(len(parts), 0)]
		c.Net.Plan[msgID(initiator, victim, "commit", "Wallet 3/gen1", 0)] = tamper
	}
	path := "Wallet 3/gen1"
	if n == 1 {
		path = "Wallet 1/gen1"
	}
	rc.Sample = map[string]any{"n": n, "t": th, "ids": fmt.Sprint(ids), "order": fmt.Sprint(order), "initiator": initiator.Name, "initiator_is_participant": contains(parts, initiator), "commit_reply_tamper": tamper}
	rc.Stats.Seen("cases", fmt.Sprintf("n%d/t%d/ids%d/init%v/%s", n, th, ids[0]%7, contains(parts, initiator), tamper))
	rc.Stats.Seen("nt_pairs", fmt.Sprintf("%d/%d", n, th))
	if n == 1 {
		// A single participant makes an ordinary account in an nd wallet; covered by C18. Only the bounds are checked here.
		for _, nd := range c.Nodes {
			_ = nd
		}
	}
	out := c.spawnGenerate(initiator, "client1", path, uint32(th), uint32(n))
	// A third of the valid multi-party runs start a second generation (another name, another initiator) at the
	// same time; their messages interleave under the scheduler and both must end as consistent keys.
	var outB *dkgOutcome
	pathB := "Wallet 3/genB"
	thB := th
	if valid && n > 1 && tamper == "" && ch.Pick(3, 0) == 2 && rc.Param("noconc", "") == "" {
		if ch.Pick(2, 0) == 1 {
			// ... or the very same name, asked for by another client through another instance with (where there is a
			// choice) another threshold: at most one of the two can come true, and whichever does is what it says it is.
			pathB = path
			if n/2+1 < n {
				thB = n/2 + 1 + (th-n/2)%(n-n/2)
			}
			rc.Stats.Inc("probe_two_generations_of_one_name_at_once", 1)
		}
		if pathB == path && ch.Pick(2, 0) == 1 {
			// the second client asks again at once when it is refused
			outB = c.spawnGenerateRetrying(c.Nodes[ch.Pick(len(c.Nodes), 0)], "client2", pathB, uint32(thB), uint32(n), 2+ch.Pick(2, 0))
			rc.Stats.Inc("probe_second_client_retries", 1)
			// ... and the first client's initiator is slow for a while, from a drawn point of its generation on (between its
			// rounds of messages, say), long enough for the second client to be refused and to come back.
			if ch.Pick(2, 0) == 1 {
				s.Stall(out.task, 1+ch.Pick(8*n, 0), 10+ch.Pick(16*n, 0))
			} else {
				// ... or exactly between two rounds: when it is about to send the first message of a round
				round := []string{"prepare", "execute", "commit"}[ch.Pick(3, 0)]
				s.StallWhen(out.task, func(p *Park) bool { return p.Kind == KSend && p.Label == round }, 10+ch.Pick(16*n, 0))
			}
			if ch.Pick(2, 0) == 1 {
				// and so is, later and for a while, the second client's, between rounds of its own
				roundB := []string{"execute", "commit"}[ch.Pick(2, 0)]
				seen := 0
				skip := ch.Pick(2, 0) // the first or the second time it gets there
				s.StallWhen(outB.task, func(p *Park) bool {
					if p.Kind == KSend && p.Label == roundB {
						seen++
						return seen > skip
					}
					return false
				}, 10+ch.Pick(24*n, 0))
			}
		} else {
			outB = c.spawnGenerate(c.Nodes[ch.Pick(len(c.Nodes), 0)], "client2", pathB, uint32(thB), uint32(n))
		}
		rc.Stats.Inc("concurrent_generations", 1)
	}
	outcome := s.Run()
	rc.Stats.Inc("outcome_"+outcome, 1)
	if outcome != "done" || !out.Done {
		if outcome == "deadlock" {
			return
		}
		rc.Truncated = outcome == "truncated"
		return
	}
	rc.Logf("generate n=%d t=%d -> %v %q msgs=%d", n, th, out.State, out.Message, len(c.Net.Log))
	if p := c.anyPanic(); p != "" {
		rc.Violate("C12", "panic", p, s.Step)
		return
	}
	switch {
	case !valid:
		if out.State == pb.ResponseState_SUCCEEDED && !(n == 1 && th == 1) {
			rc.Violate("C12", "threshold-out-of-range-accepted", fmt.Sprintf("generation with n=%d t=%d reported success", n, th), s.Step)
		}
		if len(c.Net.Log) > 0 {
			rc.Violate("C12", "threshold-out-of-range-accepted", fmt.Sprintf("generation with n=%d t=%d sent %d protocol messages before being refused", n, th, len(c.Net.Log)), s.Step)
		}
		c.noAccountAnywhere("C12", path, fmt.Sprintf("n=%d t=%d refused", n, th), s.Step)
		rc.Stats.Inc("refused_out_of_range", 1)
	case tamper != "":
		if out.State == pb.ResponseState_SUCCEEDED {
			rc.Violate("C12", "tampered-commit-reply-accepted", fmt.Sprintf("generation reported success although a commit reply was tampered (%s)", tamper), s.Step)
		}
		rc.Stats.Inc("fault_commit_reply_"+tamper, 1)
		// Half of these runs: the client asks again for the same name, through an instance that holds nothing under it
		// (participants that committed before the generation was given up still hold their account of the first attempt).
		// The second attempt may be refused; if it reports success, it is held to everything a success promises.
		if out.State != pb.ResponseState_SUCCEEDED && ch.Pick(2, 0) == 1 {
			var clean []*Node
			leftovers := 0
			for _, nd := range c.Nodes {
				if st, ca := nd.hasAccount(path); !st && !ca {
					clean = append(clean, nd)
				} else {
					leftovers++
				}
			}
			if len(clean) > 0 {
				for k := range c.Net.Plan {
					delete(c.Net.Plan, k)
				}
				via := clean[ch.Pick(len(clean), 0)]
				out2 := c.spawnGenerate(via, "client1", path, uint32(th), uint32(n))
				if o := s.Run(); o == "done" && out2.Done {
					rc.Stats.Inc("retries_after_failed_generation", 1)
					if leftovers > 0 {
						rc.Stats.Inc("probe_retry_with_leftover_accounts_of_failed_attempt", 1)
					}
					rc.Logf("retry through %s (%d leftovers) -> %v %q", via.Name, leftovers, out2.State, out2.Message)
					if p := c.anyPanic(); p != "" {
						rc.Violate("C12", "panic", p, s.Step)
						return
					}
					if out2.State == pb.ResponseState_SUCCEEDED {
						rc.Stats.Inc("retries_after_failed_generation_succeeded", 1)
						s.Direct(func() { c.checkGenerated("C12", path, uint32(th), parts, out2, s.Step) })
					}
				}
			}
		}
	case n == 1:
		if out.State != pb.ResponseState_SUCCEEDED {
			rc.Stats.Inc("single_participant_failed", 1)
		}
	case outB != nil && pathB == path:
		// Two generations of one name at once: whichever reports success is held to what it asked for.
		if out.State == pb.ResponseState_SUCCEEDED {
			rc.Stats.Inc("same_name_race_first_succeeded", 1)
			s.Direct(func() { c.checkGenerated("C12", path, uint32(th), parts, out, s.Step) })
		}
		if len(rc.Viol) == 0 && outB.Done && outB.State == pb.ResponseState_SUCCEEDED {
			rc.Stats.Inc("same_name_race_second_succeeded", 1)
			s.Direct(func() { c.checkGenerated("C12", path, uint32(thB), parts, outB, s.Step) })
		}
		if out.State != pb.ResponseState_SUCCEEDED && (!outB.Done || outB.State != pb.ResponseState_SUCCEEDED) {
			rc.Stats.Inc("same_name_race_both_failed", 1)
		}
		return
	default:
		if out.State != pb.ResponseState_SUCCEEDED {
			// C12 says what must hold when a generation reports success; it does not promise that a valid
			// request succeeds.  A failing fault-free generation makes this run vacuous: inconclusive, not a violation
			// - after the one that ran at the same time and did report success has been checked.
			if outB != nil && outB.Done && outB.State == pb.ResponseState_SUCCEEDED {
				s.Direct(func() { c.checkGenerated("C12", pathB, uint32(th), parts, outB, s.Step) })
				if len(rc.Viol) > 0 {
					return
				}
			}
			rc.Violate("HARNESS", "vacuous-fault-free-generation-failed", fmt.Sprintf("fault-free generation with n=%d t=%d ids=%v failed: %s", n, th, ids, out.Message), s.Step)
			return
		}
		rc.Stats.Inc("successful_generations", 1)
		if out.Prompt != "" {
			rc.Violate("C12", "cannot-sign", out.Prompt, s.Step)
			return
		}
		if outB != nil {
			if !outB.Done || outB.State != pb.ResponseState_SUCCEEDED {
				s.Direct(func() { c.checkGenerated("C12", path, uint32(th), parts, out, s.Step) })
				if len(rc.Viol) > 0 {
					return
				}
				rc.Violate("HARNESS", "vacuous-fault-free-generation-failed", fmt.Sprintf("a generation running concurrently with another one failed: %s", outB.Message), s.Step)
				return
			}
			s.Direct(func() { c.checkGenerated("C12", pathB, uint32(th), parts, outB, s.Step) })
			if len(rc.Viol) > 0 {
				return
			}
		}
		s.Direct(func() {
			c.checkGenerated("C12", path, uint32(th), parts, out, s.Step)
			for _, nd := range c.Nodes {
				if !contains(parts, nd) {
					if st, ca := nd.hasAccount(path); st || ca {
						rc.Violate("C12", "non-participant-holds-account", fmt.Sprintf("%s did not take part but holds %s", nd.Name, path), s.Step)
					}
				}
			}
			if len(rc.Viol) > 0 {
				return
			}
		})
		// Sometimes a second account is generated afterwards by another initiator: the first one must stay
		// listed and usable on every participant (no restart in between).
		if ch.Pick(3, 0) == 2 && len(rc.Viol) == 0 {
			out2 := c.spawnGenerate(parts[ch.Pick(len(parts), 0)], "client1", "Wallet 3/gen2", uint32(th), uint32(n))
			if o := s.Run(); o == "done" && out2.Done && out2.State == pb.ResponseState_SUCCEEDED {
				rc.Stats.Inc("second_generations", 1)
				s.Direct(func() {
					// The later account is held to everything a success promises, like the first.
					c.checkGenerated("C12", "Wallet 3/gen2", uint32(th), parts, out2, s.Step)
					if len(rc.Viol) > 0 {
						return
					}
					for _, p := range parts {
						if st, sig := p.partialSign("client1", path, h32("after second"), MkDomain([4]byte{7, 0, 0, 0}, 7)); st != pb.ResponseState_SUCCEEDED || len(sig) == 0 {
							rc.Violate("C12", "account-unusable-after-later-generation", fmt.Sprintf("%s can no longer sign with %s after %s was generated (state %v)", p.Name, path, "Wallet 3/gen2", st), s.Step)
							return
						}
						lres, err := p.Inst.ListerH.ListAccounts(p.Inst.ClientCtx("client1", ""), &pb.ListAccountsRequest{Paths: []string{"Wallet 3"}})
						names := map[string]bool{}
						if err == nil && lres != nil {
							for _, d := range lres.GetDistributedAccounts() {
								names[d.GetName()] = true
							}
						}
						if !names[path] || !names["Wallet 3/gen2"] {
							rc.Violate("C12", "account-unusable-after-later-generation", fmt.Sprintf("%s lists %v after two generations", p.Name, names), s.Step)
							return
						}
					}
				})
			} else if o == "done" && out2.Done {
				rc.Violate("HARNESS", "vacuous-fault-free-generation-failed", fmt.Sprintf("a second fault-free generation on the same cluster failed: %s", out2.Message), s.Step)
			}
		}
		if len(rc.Viol) > 0 {
			return
		}
		s.Direct(func() {
			// Restart one participant: the account must still be there and sign.
			p := parts[ch.Pick(len(parts), 0)]
			dir := p.Inst.Cfg.Dir
			p.Inst.Close()
			c.startNode(p, dir)
			st, sig := p.partialSign("client1", path, h32("after restart"), MkDomain([4]byte{7, 0, 0, 0}, 5))
			if st != pb.ResponseState_SUCCEEDED || len(sig) == 0 {
				rc.Violate("C12", "cannot-sign-after-restart", fmt.Sprintf("%s cannot sign with %s after a restart (state %v)", p.Name, path, st), s.Step)
			}
			rc.Stats.Inc("clean_restarts", 1)
			// Sometimes every participant restarts; a threshold of them must still produce a valid signature.
			if ch.Pick(3, 0) == 2 && len(rc.Viol) == 0 {
				for _, q := range parts {
					d := q.Inst.Cfg.Dir
					q.Inst.Close()
					c.startNode(q, d)
				}
				data, domain := h32("all restarted", path), MkDomain([4]byte{7, 0, 0, 0}, 6)
				var idsUsed []uint64
				var sigs [][]byte
				for _, q := range parts[:th] {
					st, sg := q.partialSign("client1", path, data, domain)
					if st != pb.ResponseState_SUCCEEDED {
						rc.Violate("C12", "cannot-sign-after-restart", fmt.Sprintf("%s cannot sign after all participants restarted (state %v)", q.Name, st), s.Step)
						return
					}
					idsUsed, sigs = append(idsUsed, q.ID), append(sigs, sg)
				}
				rs, err := recoverSig(idsUsed, sigs)
				if err != nil || !VerifySig(out.PubKey, rs, data, domain) {
					rc.Violate("C12", "threshold-subset-fails", "after restarting every participant the first t of them no longer produce a valid composite signature", s.Step)
				}
				rc.Stats.Inc("all_participants_restarted", 1)
			}
		})
	}
}

func contains(ns []*Node, n *Node) bool {
	for _, x := range ns {
		if x == n {
			return true
		}
	}
	return false
}

func init() {
	propRunners["C12"] = func(t *testing.T, rc *RunCtx) {
		if rc.Param("mode", "") == "realnet" {
			runRealNet(t, rc, "C12")
			return
		}
		runDKG(t, rc)
	}
}
