package sim

import (
	"context"
	"crypto/sha256"
	"encoding/binary"
	"fmt"
	"sync"
	"testing"

	memfetcher "github.com/attestantio/dirk/services/fetcher/mem"
	"github.com/herumi/bls-eth-go-binary/bls"
	e2types "github.com/wealdtech/go-eth2-types/v2"
	distributed "github.com/wealdtech/go-eth2-wallet-distributed"
	keystorev4 "github.com/wealdtech/go-eth2-wallet-encryptor-keystorev4"
	nd "github.com/wealdtech/go-eth2-wallet-nd/v2"
	scratch "github.com/wealdtech/go-eth2-wallet-store-scratch"
	e2wtypes "github.com/wealdtech/go-eth2-wallet-types/v2"
)

// AcctInfo describes one account of the simulated population.
type AcctInfo struct {
	Wallet string
	Name   string // account name within the wallet
	Path   string // wallet/account
	PubKey []byte
	Secret []byte
	KName  string // canonical short name used in logs (k0, k1, ...)
	Locked bool   // created with a passphrase the unlocker does not know
	DupKey bool   // another account of the population holds the same key: addressing by key is ambiguous
	// Composite is set for an account of a distributed wallet: the validator's key, of which PubKey is this instance's share.
	Composite []byte
	// Batched: the account lives in a batched wallet and opens with BatchPassphrase.
	Batched bool
	idx     int
}

// Population is a wallet store with accounts, built once per process and shared by runs.
// The keystore encryptor is the real keystorev4 code with its test-only cost knob turned down
// (2^10 instead of 2^18) so that building and unlocking accounts costs milliseconds.
type Population struct {
	Store     e2wtypes.Store
	Encryptor e2wtypes.Encryptor
	Accts     []*AcctInfo
	byKey     map[string]*AcctInfo
	byPath    map[string]*AcctInfo
	// Shared: build the fetcher once per process and pre-unlock every account.
	Shared        bool
	sharedFetcher *memfetcher.Service
}

var blsOnce sync.Once

// InitBLS initialises the BLS library once.
func InitBLS() {
	blsOnce.Do(func() {
		if err := e2types.InitBLS(); err != nil {
			panic(err)
		}
	})
}

func secretFor(tag string, i int) []byte {
	var buf [8]byte
	binary.LittleEndian.PutUint64(buf[:], uint64(i))
	h := sha256.Sum256(append([]byte("verifsim key "+tag), buf[:]...))
	var sk bls.SecretKey
	if err := sk.SetLittleEndianMod(h[:]); err != nil {
		panic(err)
	}
	return sk.Serialize()
}

// WalletSpec describes a wallet to create.
type WalletSpec struct {
	Name        string
	Kind        string // "nd" or "distributed"
	Accounts    []string
	LockedAccts map[string]bool
	// SameKeyAs: account name -> path of an account created earlier whose key this account holds as well (a key
	// imported a second time, under another name or into another wallet).
	SameKeyAs map[string]string
	// AliasKeyNames: an account that holds another account's key (SameKeyAs) also carries that account's key name, so
	// that whatever is keyed by key name (the ledger of released signatures) sees one key.
	AliasKeyNames bool
	// BatchPass: the wallet's accounts are batched under this passphrase after creation.
	BatchPass string
}

// BatchPassphrase opens the batched wallets of the populations.
const BatchPassphrase = "the batch passphrase"

// NewPopulation builds wallets and accounts in a fresh scratch store.
func NewPopulation(t *testing.T, tag string, specs []WalletSpec) *Population {
	return newPopulationOn(t, tag, specs, &lockedStore{inner: scratch.New()}, keystorev4.New(keystorev4.WithCost(t, 10)))
}

// newPopulationOn builds wallets and accounts in the given store.
func newPopulationOn(t *testing.T, tag string, specs []WalletSpec, store e2wtypes.Store, enc e2wtypes.Encryptor) *Population {
	InitBLS()
	ctx := context.Background()
	p := &Population{Store: store, Encryptor: enc, byKey: map[string]*AcctInfo{}, byPath: map[string]*AcctInfo{}}
	n := 0
	for _, spec := range specs {
		switch spec.Kind {
		case "distributed":
			dw, err := distributed.CreateWallet(ctx, spec.Name, p.Store, p.Encryptor)
			if err != nil {
				panic(err)
			}
			if len(spec.Accounts) > 0 {
				// This instance's shares of keys generated earlier (2-of-3, this instance being participant 1): the
				// share is the polynomial evaluated at 1, the verification vector its coefficients' public keys.
				if err := dw.(e2wtypes.WalletLocker).Unlock(ctx, nil); err != nil {
					panic(err)
				}
				for _, an := range spec.Accounts {
					var c0, c1, share bls.SecretKey
					if err := c0.Deserialize(secretFor(tag+" poly0", n)); err != nil {
						panic(err)
					}
					if err := c1.Deserialize(secretFor(tag+" poly1", n)); err != nil {
						panic(err)
					}
					var id bls.ID
					if err := id.SetDecString("1"); err != nil {
						panic(err)
					}
					if err := share.Set([]bls.SecretKey{c0, c1}, &id); err != nil {
						panic(err)
					}
					vvec := [][]byte{c0.GetPublicKey().Serialize(), c1.GetPublicKey().Serialize()}
					a, err := dw.(e2wtypes.WalletDistributedAccountImporter).ImportDistributedAccount(ctx, an, share.Serialize(), 2, vvec,
						map[uint64]string{1: "signer-01:9000", 2: "signer-02:9001", 3: "signer-03:9002"}, []byte("pass"))
					if err != nil {
						panic(err)
					}
					info := &AcctInfo{Wallet: spec.Name, Name: an, Path: spec.Name + "/" + an, PubKey: a.PublicKey().Marshal(), Secret: share.Serialize(), KName: fmt.Sprintf("k%d", n), idx: n,
						Composite: vvec[0]}
					p.Accts = append(p.Accts, info)
					p.byKey[string(info.PubKey)] = info
					p.byPath[info.Path] = info
					n++
				}
				if err := dw.(e2wtypes.WalletLocker).Lock(ctx); err != nil {
					panic(err)
				}
			}
			continue
		}
		w, err := nd.CreateWallet(ctx, spec.Name, p.Store, p.Encryptor)
		if err != nil {
			panic(err)
		}
		if err := w.(e2wtypes.WalletLocker).Unlock(ctx, nil); err != nil {
			panic(err)
		}
		for _, an := range spec.Accounts {
			sec := secretFor(tag, n)
			dup := false
			if first, ok := spec.SameKeyAs[an]; ok && p.byPath[first] != nil {
				sec, dup = p.byPath[first].Secret, true
				p.byPath[first].DupKey = true
			}
			pass := []byte("pass")
			locked := spec.LockedAccts[an]
			if locked {
				pass = []byte("a passphrase nobody configured")
			}
			a, err := w.(e2wtypes.WalletAccountImporter).ImportAccount(ctx, an, sec, pass)
			if err != nil {
				panic(err)
			}
			info := &AcctInfo{Wallet: spec.Name, Name: an, Path: spec.Name + "/" + an, PubKey: a.PublicKey().Marshal(), Secret: sec, KName: fmt.Sprintf("k%d", n), Locked: locked, DupKey: dup, idx: n}
			if dup && spec.AliasKeyNames {
				info.KName = p.byPath[spec.SameKeyAs[an]].KName
			}
			p.Accts = append(p.Accts, info)
			if !dup {
				p.byKey[string(info.PubKey)] = info
			}
			p.byPath[info.Path] = info
			n++
		}
		if spec.BatchPass != "" {
			// "ethdo wallet batch": the accounts, opened with their own passphrase, are stored once more as one blob under one
			// passphrase; the wallet serves them from that blob from then on.
			if err := w.(e2wtypes.WalletBatchCreator).BatchWallet(ctx, []string{"pass"}, spec.BatchPass); err != nil {
				panic(err)
			}
			for _, a := range p.Accts[len(p.Accts)-len(spec.Accounts):] {
				a.Batched = true
			}
		}
		if err := w.(e2wtypes.WalletLocker).Lock(ctx); err != nil {
			panic(err)
		}
	}
	return p
}

// KeyName maps a public key to its canonical short name.
func (p *Population) KeyName(k []byte) string {
	if len(k) > 48 {
		k = k[:48]
	}
	if a, ok := p.byKey[string(k)]; ok {
		return a.KName
	}
	return "x" + hexShort(k)
}

// ByPath finds an account by wallet/account path.
func (p *Population) ByPath(path string) *AcctInfo { return p.byPath[path] }

// ByKey finds an account by public key.
func (p *Population) ByKey(k []byte) *AcctInfo { return p.byKey[string(k)] }

// stdPopulation is the default population: 20 accounts in Wallet 1, 6 in Wallet 2 (one of them
// with an unknown passphrase, two with nested names), an empty distributed Wallet 3.
var (
	stdPopOnce sync.Once
	stdPop     *Population
)

// StdPopulation returns the process-wide default population.
func StdPopulation(t *testing.T) *Population {
	stdPopOnce.Do(func() {
		w1 := WalletSpec{Name: "Wallet 1", Kind: "nd"}
		for i := 0; i < 20; i++ {
			w1.Accounts = append(w1.Accounts, fmt.Sprintf("Account %d", i))
		}
		w2 := WalletSpec{Name: "Wallet 2", Kind: "nd", LockedAccts: map[string]bool{"Sealed": true}}
		for i := 0; i < 3; i++ {
			w2.Accounts = append(w2.Accounts, fmt.Sprintf("Account %d", i))
		}
		w2.Accounts = append(w2.Accounts, "Sealed")
		// Account names may contain the path separator: these two live beside "Wallet 2/Account 0".
		w2.Accounts = append(w2.Accounts, "Account 0/sub", "Account 0/sub/deep")
		// The distributed wallet comes first: key k0 of every world built on this population is this instance's share of
		// a threshold key (slashing protection, locking, export and import are per share key, like any other key).
		stdPop = NewPopulation(t, "std", []WalletSpec{{Name: "Wallet 3", Kind: "distributed", Accounts: []string{"Shared validator"}}, w1, w2})
	})
	return stdPop
}

var (
	bigPopOnce sync.Once
	bigPop     *Population
)

var (
	dupPopOnce sync.Once
	dupPop     *Population
)

// DupPopulation is four keys held twice: by the accounts of wallet "Primary" and, imported a second time, by the like-named
// accounts of wallet "Imported" (indices 4-7, carrying the key names of 0-3).
func DupPopulation(t *testing.T) *Population {
	dupPopOnce.Do(func() {
		a := WalletSpec{Name: "Primary", Kind: "nd"}
		b := WalletSpec{Name: "Imported", Kind: "nd", SameKeyAs: map[string]string{}, AliasKeyNames: true}
		for i := 0; i < 4; i++ {
			n := fmt.Sprintf("A%d", i)
			a.Accounts = append(a.Accounts, n)
			b.Accounts = append(b.Accounts, n)
			b.SameKeyAs[n] = "Primary/" + n
		}
		dupPop = NewPopulation(t, "dup", []WalletSpec{a, b})
	})
	return dupPop
}

// BigPopulation returns a process-wide population of 525 accounts in one wallet (three with nested names, two with a blank at one end of another account's name), used by the
// large-batch checks.  Its fetcher is shared between runs so that accounts are unlocked once.
func BigPopulation(t *testing.T) *Population {
	bigPopOnce.Do(func() {
		w := WalletSpec{Name: "Big", Kind: "nd"}
		for i := 0; i < 520; i++ {
			w.Accounts = append(w.Accounts, fmt.Sprintf("V%03d", i))
		}
		// Account names may contain the path separator: these live beside "Big/V000" and "Big/V001".
		w.Accounts = append(w.Accounts, "V000/1", "V001/a/b", "V000/2")
		// ... and names that differ from "V000" and "V001" by a blank at either end
		w.Accounts = append(w.Accounts, "V000 ", " V001")
		// ... then a batched wallet (its accounts open with the batch passphrase, the second of the two a default instance is
		// configured with; they are not opened ahead of time, so each process meets the still-encrypted batch once) and, last, a
		// share of a threshold key in a distributed wallet (index len-1: runners that want it take it from the end)
		bigPop = NewPopulation(t, "big", []WalletSpec{w,
			{Name: "BigBatch", Kind: "nd", Accounts: []string{"B0", "B1", "B2", "B3"}, BatchPass: BatchPassphrase},
			{Name: "BigShared", Kind: "distributed", Accounts: []string{"Shared validator"}}})
		bigPop.Shared = true
	})
	return bigPop
}
