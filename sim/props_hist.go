package sim

import (
	"fmt"
	"testing"
)

var boundaryVals = []uint64{0, 1, 2, 3, 5, 8, 1<<63 - 2, 1<<63 - 1, 1 << 63, 1<<63 + 1, 1<<64 - 2, 1<<64 - 1}

// histGen generates conflict-seeking signing requests from what has been released so far.
type histGen struct {
	rc     *RunCtx
	ledger *Ledger
	pop    *Population
	nKeys  int
	uniq   uint64
	big    bool // allow values >= 2^63
}

func (g *histGen) boundary() uint64 {
	n := len(boundaryVals)
	if !g.big {
		n = 8
	}
	return boundaryVals[g.rc.Ch.Pick(n, 0)]
}

func (g *histGen) attEntry(k int) Entry {
	ch := g.rc.Ch
	key := g.pop.Accts[k].KName
	prev := g.ledger.Atts[key]
	var src, tgt uint64
	mode := ch.Pick(7, 0)
	if len(prev) == 0 && mode >= 2 && mode <= 4 {
		mode = 5
	}
	switch mode {
	case 0, 1, 6: // advancing
		var ls, lt uint64
		for _, p := range prev {
			if p.Src > ls {
				ls = p.Src
			}
			if p.Tgt > lt {
				lt = p.Tgt
			}
		}
		src = ls + uint64(ch.Pick(2, 0))
		tgt = max(lt, src) + 1 + uint64(ch.Pick(2, 0))
		if len(prev) == 0 && ch.Pick(4, 0) == 0 {
			src, tgt = 0, 0 // genesis
		}
	case 2: // double vote attempt
		p := prev[ch.Pick(len(prev), 0)]
		tgt = p.Tgt
		src = p.Src
		if ch.Pick(2, 0) == 1 && src > 0 {
			src--
		}
	case 3: // surround attempt
		p := prev[ch.Pick(len(prev), 0)]
		src, tgt = p.Src, p.Tgt+1
		if src > 0 {
			src--
		}
	case 4: // surrounded attempt
		p := prev[ch.Pick(len(prev), 0)]
		src, tgt = p.Src+1, p.Tgt
		if tgt > 0 {
			tgt--
		}
	default: // boundary values
		src, tgt = g.boundary(), g.boundary()
		if ch.Pick(3, 0) > 0 && src > tgt {
			src, tgt = tgt, src
		}
	}
	g.uniq++
	e := AttEntry(k, src, tgt, g.uniq)
	switch ch.Pick(6, 0) {
	case 1, 4:
		e.ByKey = true
	case 2:
		e.Both = true
	case 3:
		e.KeyPad = 1 + ch.Pick(2, 0) // public key with trailing junk (resolves to the same account)
	}
	if comp := g.pop.Accts[k].Composite; comp != nil && ch.Pick(8, 0) == 7 {
		// a share of a threshold key, addressed by the validator's (composite) key: this instance holds no such key
		e.ByKey, e.Both, e.KeyPad, e.AddrKey = false, false, 0, comp
	}
	if ch.Pick(12, 0) == 11 {
		e.Domain = MkDomain([4]byte{byte(2 + ch.Pick(8, 0)), 0, 0, 0}, g.uniq)
	} else if ch.Pick(5, 0) == 4 {
		// the attester domain of another fork (same type, other fork data): the key's history is one and the same
		e.Domain = MkDomain(DomAttester, uint64(1+ch.Pick(2, 0)))
	}
	return e
}

func (g *histGen) propEntry(k int) Entry {
	ch := g.rc.Ch
	key := g.pop.Accts[k].KName
	prev := g.ledger.Props[key]
	var slot uint64
	mode := ch.Pick(5, 0)
	if len(prev) == 0 && mode >= 2 && mode <= 3 {
		mode = 4
	}
	switch mode {
	case 0, 1:
		var ls uint64
		for _, p := range prev {
			if p.Slot > ls {
				ls = p.Slot
			}
		}
		slot = ls + uint64(ch.Pick(3, 0))
		if len(prev) > 0 && slot == ls && ch.Pick(2, 0) == 0 {
			slot++
		}
	case 2: // same slot as before, different block
		slot = prev[ch.Pick(len(prev), 0)].Slot
	case 3: // lower slot
		slot = prev[ch.Pick(len(prev), 0)].Slot
		if slot > 0 {
			slot--
		}
	default:
		slot = g.boundary()
	}
	g.uniq++
	e := PropEntry(k, slot, g.uniq)
	switch ch.Pick(6, 0) {
	case 1, 2:
		e.ByKey = true
	case 3:
		e.KeyPad = 1 + ch.Pick(2, 0) // public key with trailing junk (resolves to the same account)
	}
	if ch.Pick(12, 0) == 11 {
		e.Domain = MkDomain([4]byte{byte(1 + ch.Pick(8, 0)), 0, 0, 0}, g.uniq)
	} else if ch.Pick(5, 0) == 4 {
		e.Domain = MkDomain(DomProposer, uint64(1+ch.Pick(2, 0))) // another fork's proposer domain
	}
	return e
}

func (g *histGen) op(prop string) *Op {
	ch := g.rc.Ch
	if prop == "C02" {
		return &Op{Kind: "prop", Client: "client1", Entries: []Entry{g.propEntry(ch.Pick(g.nKeys, 0))}}
	}
	shape := ch.Pick(20, 0)
	switch {
	case shape < 10 || g.nKeys == 1 && shape < 18:
		return &Op{Kind: "att", Client: "client1", Entries: []Entry{g.attEntry(ch.Pick(g.nKeys, 0))}}
	case shape < 18: // batch over distinct keys
		n := 1 + ch.Pick(g.nKeys, 0)
		start := ch.Pick(g.nKeys, 0)
		o := &Op{Kind: "atts", Client: "client1"}
		for i := 0; i < n; i++ {
			o.Entries = append(o.Entries, g.attEntry((start+i)%g.nKeys))
		}
		return o
	default: // batch repeating a key (by name twice, by key twice, or name + key)
		k := ch.Pick(g.nKeys, 0)
		e1, e2 := g.attEntry(k), g.attEntry(k)
		switch ch.Pick(3, 0) {
		case 0:
			e1.ByKey, e2.ByKey, e1.Both, e2.Both = false, false, false, false
		case 1:
			e1.ByKey, e2.ByKey = true, true
		default:
			e1.ByKey, e2.ByKey, e1.Both, e2.Both = false, true, false, false
		}
		o := &Op{Kind: "atts", Client: "client1", Entries: []Entry{e1, e2}}
		if g.nKeys > 1 && ch.Pick(2, 0) == 1 {
			o.Entries = append(o.Entries, g.attEntry((k+1)%g.nKeys))
		}
		return o
	}
}

// restart replaces the world's instance: clean (close, reopen the same directory) or crash
// (open a copy of the directory image as it is now; the old incarnation is abandoned).
func (w *concWorld) restart(crash bool) {
	w.s.Direct(func() {
		old := w.inst
		dir := old.Cfg.Dir
		if w.twin != nil {
			w.twin.Dead = crash
			w.twin.Close()
			w.twin = nil
		}
		if crash {
			nd := NewRunDir(w.t)
			if err := CopyDir(dir, nd); err != nil {
				w.t.Fatalf("copy: %v", err)
			}
			dir = nd
			w.rc.Stats.Inc("crash_restarts", 1)
			old.Dead = true
		} else {
			w.rc.Stats.Inc("clean_restarts", 1)
		}
		w.s.AbortBackground(old)
		old.Close()
		cfg := old.Cfg
		cfg.Dir = dir
		cfg.PeriodicPruning = w.pruning
		inst, err := BootInstance(w.s, fmt.Sprintf("i%d", w.incarnation+1), cfg)
		if err != nil && w.shared {
			// Two stores wrote the same files: what that did to them is beside the property (nothing is released by a
			// daemon that does not start); the history ends here.
			w.rc.Stats.Inc("reopen_failed_after_two_instances_shared_the_directory", 1)
			w.rc.Logf("restart: open failed after a shared directory: %v", err)
			w.stuck = true
			return
		}
		if err != nil {
			w.rc.Stats.Inc("restart_open_failed", 1)
			w.rc.Logf("restart: open failed: %v", err)
			w.t.Fatalf("restart failed: %v", err)
		}
		w.incarnation++
		w.inst = inst
	})
}

// runHist is the body of C01 (attestations) and C02 (proposals): histories of conflict-seeking
// requests, sequential or in concurrent phases, with clean and crash restarts in between.
func runHist(t *testing.T, rc *RunCtx, prop string) {
	if rc.Param("mode", "") == "daemon" {
		runDaemonHist(t, rc, prop)
		return
	}
	if prop == "C01" && rc.Param("mode", "") == "free" {
		runBatchFree(t, rc, prop)
		return
	}
	ch := rc.Ch
	nKeys := 1 + ch.Pick(4, 0)
	maxOps := 26
	if rc.Tier == "thorough" {
		maxOps = 56
	}
	nOps := 5 + ch.Pick(maxOps, 0)
	concurrent := ch.Pick(2, 0) == 1
	restartMode := ch.Pick(3, 0)
	big := ch.Pick(3, 0) > 0
	overlap := !concurrent && ch.Pick(3, 0) == 2
	var w *concWorld
	cfg := SchedCfg{StayBias: []float64{0, 0.5, 0.8}[ch.Pick(3, 0)], MaxSteps: 1 << 20}
	// In a third of the concurrent histories clients may abandon requests in flight.
	abandon := concurrent && ch.Pick(3, 0) == 2
	if abandon {
		cfg.Action = func(s *Sched, parked []*Park) bool { return w.abandonOne(s) }
	}
	// A quarter of the concurrent histories meet transient storage errors (a read or a write fails now and then):
	// the request that meets one may fail, but nothing it leaves behind may let a later request sign a conflict.
	if concurrent && ch.Pick(4, 0) == 3 {
		den := []int{6, 12, 24}[ch.Pick(3, 0)]
		cfg.Fault = func(s *Sched, p *Park) Resume {
			if p.Kind == KPoint && ch.Chance(1, den) {
				rc.Stats.Inc("fault_store-"+p.Label, 1)
				return Resume{Err: ErrInjected, Fault: "store-" + p.Label}
			}
			return Resume{}
		}
		rc.Stats.Inc("histories_with_transient_storage_errors", 1)
	}
	w = newW1(t, rc, cfg, nil)
	w.abandon = abandon
	// Half of the histories: incarnations after the first run with the storage housekeeping switched on; whatever
	// goroutine that starts is one more thread of the schedule.
	w.pruning = ch.Pick(2, 0) == 1
	defer func() { w.close() }()
	g := &histGen{rc: rc, ledger: w.ledger, pop: w.pop, nKeys: nKeys, big: big}
	var desc []string
	done := 0
	for done < nOps {
		if concurrent {
			k := 2 + ch.Pick(4, 0)
			ops := make([]*Op, k)
			for i := range ops {
				ops[i] = g.op(prop)
				desc = append(desc, "|"+ops[i].String())
			}
			first := len(w.tasks)
			w.submit(ops)
			if out := w.s.Run(); out != "done" {
				rc.Stats.Inc("outcome_"+out, 1)
				if out == "deadlock" {
					return
				}
			}
			idx := make([]int, 0, k)
			for i := first; i < len(w.tasks); i++ {
				idx = append(idx, i)
			}
			for i := 0; i < len(idx); i++ {
				for j := i + 1; j < len(idx); j++ {
					if w.tasks[idx[j]].ReturnStep < w.tasks[idx[i]].ReturnStep {
						idx[i], idx[j] = idx[j], idx[i]
					}
				}
			}
			for _, i := range idx {
				if w.tasks[i].Completed {
					rc.Logf("t%d %s -> %v", w.tasks[i].ID, w.ops[i], w.res[i].States)
					Monitor(rc, w.ledger, w.pop, w.ops[i], w.res[i], w.tasks[i].ReturnStep, false)
				}
			}
			done += k
		} else {
			o := g.op(prop)
			// Now and then a batch also carries an entry whose domain is shorter than a domain type, in a
			// slice of exactly that capacity (a caller inside the process; the wire decoder never produces
			// one). Where that ends the request in a panic the daemon is dead: nothing of the batch may have
			// been released, and the next incarnation starts from what is on disk.
			poison := prop == "C01" && ch.Pick(8, 0) == 7
			if poison {
				bad := g.attEntry(ch.Pick(g.nKeys, 0))
				bad.Domain = make([]byte, 1+ch.Pick(3, 0))
				bad.Domain[0] = byte(ch.Pick(3, 0))
				o = &Op{Kind: "atts", Client: "client1", Entries: append(append([]Entry{}, o.Entries...), bad)}
				rc.Stats.Inc("probe_batch_with_short_domain_entry", 1)
			}
			desc = append(desc, o.String())
			target := w.inst
			if w.twin != nil && ch.Pick(2, 0) == 1 {
				target = w.twin
				desc = append(desc, "@twin")
			}
			var r *OpResult
			w.s.Direct(func() { r = o.Exec(target) })
			rc.Logf("op%d %s -> %v", done, o, r.States)
			if poison && r.Panic != "" {
				rc.Stats.Inc("daemon_died_on_short_domain", 1)
				w.restart(true)
				desc = append(desc, "DIED")
			} else {
				if poison {
					// The malformed entry itself is outside the property; the others are judged as usual.
					n := len(o.Entries) - 1
					o = &Op{Kind: o.Kind, Client: o.Client, Entries: o.Entries[:n]}
					if len(r.States) > n {
						r.States = r.States[:n]
					}
					if len(r.Sigs) > n {
						r.Sigs = r.Sigs[:n]
					}
				}
				Monitor(rc, w.ledger, w.pop, o, r, done, true)
			}
			done++
		}
		if restartMode > 0 && ch.Pick(6, 0) == 5 {
			crash := restartMode == 2 && ch.Pick(2, 0) == 1
			w.restart(crash)
			desc = append(desc, map[bool]string{true: "CRASH-RESTART", false: "RESTART"}[crash])
		}
		// An operator starts the replacement instance on the same storage directory while the old one still
		// serves. Whether the newcomer is refused or let in, the key's history stays one.
		if overlap && !w.stuck && w.twin == nil && ch.Pick(5, 0) == 4 {
			w.s.Direct(func() {
				tw, err := NewInstance(w.s, fmt.Sprintf("twin%d", w.incarnation), w.inst.Cfg)
				if err != nil {
					rc.Stats.Inc("second_instance_on_same_directory_refused", 1)
					return
				}
				rc.Stats.Inc("second_instance_on_same_directory_started", 1)
				w.twin, w.shared = tw, true
			})
			desc = append(desc, "SECOND-INSTANCE")
		}
		if len(rc.Viol) > 0 || w.stuck {
			break
		}
	}
	rc.Stats.Inc("ops", int64(done))
	n := 0
	for _, o := range desc {
		n += len(o)
	}
	if w.ledger.N >= 2 {
		rc.Stats.Seen("cases", hexShort(h32(desc)))
	}
	if len(desc) > 40 {
		desc = append(desc[:40], "...")
	}
	rc.Sample = map[string]any{"keys": nKeys, "concurrent": concurrent, "restart_mode": restartMode, "values_ge_2^63": big, "history": desc, "released": w.ledger.N}
}

func init() {
	propRunners["C01"] = func(t *testing.T, rc *RunCtx) { runHist(t, rc, "C01") }
	propRunners["C02"] = func(t *testing.T, rc *RunCtx) { runHist(t, rc, "C02") }
}
