package sim

import (
	"context"
	"fmt"
	"testing"
	"time"

	pb "github.com/wealdtech/eth2-signer-api/pb/v1"
	"google.golang.org/protobuf/encoding/protowire"
	"google.golang.org/protobuf/proto"
	"google.golang.org/protobuf/reflect/protoreflect"
)

// W6: wire world.  Requests are generated structure-aware, pass through the protobuf wire encoding
// (so slices have the lengths and capacities a real decoder produces) and are handed to the real
// handlers of an instance hosted by this worker process.  A panic on a handler goroutine is recorded;
// a panic on any other goroutine (scatter workers) kills the worker process, which the driver sees,
// attributes to the seed written ahead of the run, and re-runs in a fresh process to confirm.

var wireLens = []int{0, 1, 3, 4, 31, 32, 33, 47, 48, 49, 96, 4096}

type wireGen struct {
	rc    *RunCtx
	pop   *Population
	uniq  uint64
	epoch map[int]uint64
}

func (g *wireGen) bytesField() []byte {
	ch := g.rc.Ch
	if ch.Pick(10, 0) < 4 {
		g.uniq++
		return h32("wire", g.uniq)
	}
	n := wireLens[ch.Pick(len(wireLens), 0)]
	if n == 0 && ch.Pick(2, 0) == 0 {
		return nil
	}
	b := make([]byte, n)
	for i := range b {
		b[i] = byte(ch.Pick(256, 0))
		if i > 8 {
			b[i] = byte(i)
		}
	}
	return b
}

func (g *wireGen) domain() []byte {
	ch := g.rc.Ch
	switch ch.Pick(8, 0) {
	case 0:
		return MkDomain(DomAttester, 0)
	case 1:
		return MkDomain(DomProposer, 0)
	case 2:
		return MkDomain(DomExit, 0)
	case 3:
		return MkDomain([4]byte{7, 0, 0, 0}, 1)
	case 4: // right prefix, wrong length
		d := MkDomain([][4]byte{DomAttester, DomProposer, {7, 0, 0, 0}}[ch.Pick(3, 0)], 0)
		return d[:[]int{1, 2, 3, 4, 5, 31}[ch.Pick(6, 0)]]
	case 5:
		return append(MkDomain(DomAttester, 0), 1, 2, 3)
	default:
		return g.bytesField()
	}
}

func (g *wireGen) u64() uint64 {
	switch g.rc.Ch.Pick(6, 0) {
	case 0:
		return 0
	case 1:
		return ^uint64(0)
	case 2:
		return 1 << 63
	case 3:
		return 1<<63 - 1
	default:
		return g.rc.Ch.U64() >> uint(g.rc.Ch.Pick(60, 0))
	}
}

// regexName is a wallet followed by an account pattern assembled from regular-expression fragments (the
// account part of a listing path is a pattern): valid, invalid and nearly valid ones.
func (g *wireGen) regexName() string {
	ch := g.rc.Ch
	toks := []string{"Account ", "1", ".*", "\\$", "$", "^", "\\Q", "\\E", "(", ")", "(?:", "[", "]", "|", "\\", "{2}", "{1001}", "*", "+", "?",
		"(?i)", "\\z", "\\pN", "[[:alpha:]]", "\\x{10FFFF}", "(?P<n>", "[^", "\\C", "\xff", "/", "\\b", "[0-9]"}
	n := 1 + ch.Pick(6, 0)
	s := ""
	for i := 0; i < n; i++ {
		s += toks[ch.Pick(len(toks), 0)]
	}
	return []string{"Wallet 1/", "Wallet 2/", "/", "Unknown/"}[ch.Pick(4, 0)] + s
}

func (g *wireGen) accountName() string {
	ch := g.rc.Ch
	if ch.Pick(6, 0) == 5 {
		g.rc.Stats.Inc("probe_pattern_fragments_in_name", 1)
		return g.regexName()
	}
	switch ch.Pick(15, 0) {
	case 12:
		return "Wallet 1" // a whole wallet
	case 13:
		return []string{"Wallet 2", "Wallet 3", "wallet 1"}[ch.Pick(3, 0)]
	case 14:
		return "Wallet 1/Account .*"
	case 0:
		// nothing, or nothing but blanks
		return []string{"", "", " ", "\t", "  \n", " / "}[ch.Pick(6, 0)]
	case 1:
		return []string{"NoSlash", " Wallet 1/Account 0", "Wallet 1/Account 0 ", "Wallet 1 / Account 0"}[ch.Pick(4, 0)]
	case 2:
		return "/"
	case 3:
		return "Wallet 1/"
	case 4:
		return "/Account 0"
	case 5:
		return "Unknown/Account 0"
	case 6:
		return "Wallet 1/Unknown"
	case 7:
		return "Wallet 1/Account 0/extra/parts"
	case 8:
		return "Wallet 1/[unclosed"
	case 9:
		return string(make([]byte, 5000))
	default:
		return g.pop.Accts[ch.Pick(len(g.pop.Accts)-1, 0)].Path // the last account is the canary's
	}
}

func (g *wireGen) pubKey() []byte {
	ch := g.rc.Ch
	if ch.Pick(3, 0) == 0 {
		return g.bytesField()
	}
	k := append([]byte{}, g.pop.Accts[ch.Pick(len(g.pop.Accts)-1, 0)].PubKey...)
	switch ch.Pick(5, 0) {
	case 0:
		return k[:47]
	case 1:
		return append(k, 0)
	}
	return k
}

func (g *wireGen) attData() *pb.AttestationData {
	ch := g.rc.Ch
	if ch.Pick(12, 0) == 11 {
		return nil
	}
	d := &pb.AttestationData{Slot: g.u64(), CommitteeIndex: g.u64(), BeaconBlockRoot: g.bytesField()}
	if ch.Pick(10, 0) != 0 {
		d.Source = &pb.Checkpoint{Epoch: g.u64(), Root: g.bytesField()}
	}
	if ch.Pick(10, 0) != 0 {
		d.Target = &pb.Checkpoint{Epoch: g.u64(), Root: g.bytesField()}
	}
	return d
}

// nearValidAtt is a request that would be signed (known permitted account, attester domain, advancing
// epochs) with one or two fields replaced by boundary values: deep paths are only reached by requests
// that pass every earlier check.
func (g *wireGen) nearValidAtt() *pb.SignBeaconAttestationRequest {
	ch := g.rc.Ch
	k := ch.Pick(len(g.pop.Accts)-1, 0)
	g.epoch[k] += 2
	g.uniq++
	e := AttEntry(k, g.epoch[k], g.epoch[k]+1, g.uniq)
	r := &pb.SignBeaconAttestationRequest{Domain: e.Domain, Data: e.attData()}
	if ch.Pick(2, 0) == 1 {
		r.Id = &pb.SignBeaconAttestationRequest_PublicKey{PublicKey: g.pop.Accts[k].PubKey}
	} else {
		r.Id = &pb.SignBeaconAttestationRequest_Account{Account: g.pop.Accts[k].Path}
	}
	for i, n := 0, 1+ch.Pick(2, 0); i < n; i++ {
		switch ch.Pick(7, 0) {
		case 0:
			r.Data.BeaconBlockRoot = g.bytesField()
		case 1:
			r.Data.Source.Root = g.bytesField()
		case 2:
			r.Data.Target.Root = g.bytesField()
		case 3:
			r.Domain = append(append([]byte{}, e.Domain[:4]...), g.bytesField()...)
		case 4:
			r.Data.Slot, r.Data.CommitteeIndex = g.u64(), g.u64()
		case 5:
			r.Data.Target.Epoch = g.u64()
		default:
		}
	}
	return r
}

func (g *wireGen) attReq() *pb.SignBeaconAttestationRequest {
	ch := g.rc.Ch
	if ch.Pick(40, 0) == 39 {
		return nil
	}
	if ch.Pick(5, 0) >= 3 {
		return g.nearValidAtt()
	}
	r := &pb.SignBeaconAttestationRequest{Domain: g.domain(), Data: g.attData()}
	switch ch.Pick(5, 0) {
	case 0:
	case 1, 2:
		r.Id = &pb.SignBeaconAttestationRequest_PublicKey{PublicKey: g.pubKey()}
	default:
		r.Id = &pb.SignBeaconAttestationRequest_Account{Account: g.accountName()}
	}
	return r
}

func (g *wireGen) signReq() *pb.SignRequest {
	ch := g.rc.Ch
	if ch.Pick(40, 0) == 39 {
		return nil
	}
	if ch.Pick(5, 0) >= 3 {
		// near-valid: known account, harmless domain type, data or domain of boundary length
		k := ch.Pick(len(g.pop.Accts)-1, 0)
		g.uniq++
		r := &pb.SignRequest{Id: &pb.SignRequest_Account{Account: g.pop.Accts[k].Path}, Data: h32("nv", g.uniq), Domain: MkDomain([4]byte{7, 0, 0, 0}, g.uniq)}
		switch ch.Pick(3, 0) {
		case 0:
			r.Data = g.bytesField()
		case 1:
			r.Domain = append([]byte{7, 0, 0, 0}, g.bytesField()...)
		default:
			r.Domain = r.Domain[:[]int{1, 2, 3, 4, 5}[ch.Pick(5, 0)]]
		}
		return r
	}
	r := &pb.SignRequest{Domain: g.domain(), Data: g.bytesField()}
	switch ch.Pick(5, 0) {
	case 0:
	case 1, 2:
		r.Id = &pb.SignRequest_PublicKey{PublicKey: g.pubKey()}
	default:
		r.Id = &pb.SignRequest_Account{Account: g.accountName()}
	}
	return r
}

func (g *wireGen) batchSize() int {
	ch := g.rc.Ch
	sizes := []int{0, 1, 2, 3, 17, 100}
	if ch.Pick(20, 0) == 0 {
		sizes = []int{1000}
		if g.rc.Tier == "thorough" && ch.Pick(4, 0) == 0 {
			sizes = []int{10000}
		}
	}
	return sizes[ch.Pick(len(sizes), 0)]
}

type wireCall struct {
	name string
	req  proto.Message
	call func(ctx context.Context, n *Node, req proto.Message) (proto.Message, error)
}

// wireMutator, when set (by the C20 runner, which generates requests on one goroutine), may append extra
// encoded fields to a marshalled request before it is decoded again: things a hand-made client can put on the
// wire and a canonical marshaller never does.
var wireMutator func(b []byte, m proto.Message) []byte

func rt[T proto.Message](m T, fresh T) T {
	b, err := proto.Marshal(m)
	if err != nil {
		return m
	}
	if wireMutator != nil {
		if b2 := wireMutator(b, m); b2 != nil {
			f2 := fresh.ProtoReflect().New().Interface().(T)
			if proto.Unmarshal(b2, f2) == nil {
				return f2
			}
		}
	}
	if proto.Unmarshal(b, fresh) != nil {
		return m
	}
	return fresh
}

// mutateWire appends up to three extra top-level fields: a bytes or string field present but empty, a second
// occurrence of a scalar field (the last one wins), the other member of a oneof, an unknown field number.
func (g *wireGen) mutateWire(b []byte, m proto.Message) []byte {
	ch := g.rc.Ch
	if ch.Pick(5, 0) != 4 {
		return nil
	}
	fs := m.ProtoReflect().Descriptor().Fields()
	out := append([]byte{}, b...)
	for k, n := 0, 1+ch.Pick(3, 0); k < n; k++ {
		if fs.Len() == 0 || ch.Pick(6, 0) == 5 {
			out = protowire.AppendTag(out, protowire.Number(1000+ch.Pick(50, 0)), protowire.BytesType)
			out = protowire.AppendBytes(out, []byte("unknown field"))
			continue
		}
		f := fs.Get(ch.Pick(fs.Len(), 0))
		if f.IsList() || f.IsMap() {
			continue
		}
		switch f.Kind() {
		case protoreflect.BytesKind, protoreflect.StringKind:
			out = protowire.AppendTag(out, f.Number(), protowire.BytesType)
			switch ch.Pick(3, 0) {
			case 0:
				out = protowire.AppendBytes(out, nil) // present, empty
			case 1:
				out = protowire.AppendBytes(out, []byte("Wallet 1/Account 0"))
			default:
				out = protowire.AppendBytes(out, make([]byte, []int{1, 31, 32, 48, 49}[ch.Pick(5, 0)]))
			}
		case protoreflect.Uint64Kind, protoreflect.Uint32Kind, protoreflect.Int64Kind, protoreflect.Int32Kind, protoreflect.EnumKind, protoreflect.BoolKind:
			out = protowire.AppendTag(out, f.Number(), protowire.VarintType)
			out = protowire.AppendVarint(out, []uint64{0, 1, 1 << 31, 1 << 32, 1<<63 - 1, 1 << 63, ^uint64(0)}[ch.Pick(7, 0)])
		case protoreflect.MessageKind:
			out = protowire.AppendTag(out, f.Number(), protowire.BytesType)
			out = protowire.AppendBytes(out, nil) // present, empty sub-message (merged into the first)
		}
	}
	g.rc.Stats.Inc("probe_requests_with_hand_made_wire_fields", 1)
	return out
}

func (g *wireGen) next() wireCall {
	ch := g.rc.Ch
	switch ch.Pick(16, 0) {
	case 0:
		paths := make([]string, ch.Pick(4, 0))
		for i := range paths {
			paths[i] = g.accountName()
		}
		return wireCall{"Lister.ListAccounts", rt(&pb.ListAccountsRequest{Paths: paths}, &pb.ListAccountsRequest{}), func(ctx context.Context, n *Node, r proto.Message) (proto.Message, error) {
			return n.Inst.ListerH.ListAccounts(ctx, r.(*pb.ListAccountsRequest))
		}}
	case 1, 2:
		return wireCall{"Signer.Sign", rt(g.signReqNonNil(), &pb.SignRequest{}), func(ctx context.Context, n *Node, r proto.Message) (proto.Message, error) {
			return n.Inst.SignerH.Sign(ctx, r.(*pb.SignRequest))
		}}
	case 3, 4:
		m := &pb.MultisignRequest{}
		for i, k := 0, g.batchSize(); i < k; i++ {
			m.Requests = append(m.Requests, g.signReq())
		}
		return wireCall{"Signer.Multisign", rtKeepNil(m), func(ctx context.Context, n *Node, r proto.Message) (proto.Message, error) {
			return n.Inst.SignerH.Multisign(ctx, r.(*pb.MultisignRequest))
		}}
	case 5, 6:
		r := g.attReq()
		if r == nil {
			r = &pb.SignBeaconAttestationRequest{}
		}
		return wireCall{"Signer.SignBeaconAttestation", rt(r, &pb.SignBeaconAttestationRequest{}), func(ctx context.Context, n *Node, r proto.Message) (proto.Message, error) {
			return n.Inst.SignerH.SignBeaconAttestation(ctx, r.(*pb.SignBeaconAttestationRequest))
		}}
	case 7, 8:
		m := &pb.SignBeaconAttestationsRequest{}
		for i, k := 0, g.batchSize(); i < k; i++ {
			m.Requests = append(m.Requests, g.attReq())
		}
		return wireCall{"Signer.SignBeaconAttestations", rtKeepNilAtts(m), func(ctx context.Context, n *Node, r proto.Message) (proto.Message, error) {
			return n.Inst.SignerH.SignBeaconAttestations(ctx, r.(*pb.SignBeaconAttestationsRequest))
		}}
	case 9:
		r := &pb.SignBeaconProposalRequest{Domain: g.domain()}
		if ch.Pick(10, 0) != 0 {
			r.Data = &pb.BeaconBlockHeader{Slot: g.u64(), ProposerIndex: g.u64(), ParentRoot: g.bytesField(), StateRoot: g.bytesField(), BodyRoot: g.bytesField()}
		}
		switch ch.Pick(4, 0) {
		case 0:
		case 1:
			r.Id = &pb.SignBeaconProposalRequest_PublicKey{PublicKey: g.pubKey()}
		default:
			r.Id = &pb.SignBeaconProposalRequest_Account{Account: g.accountName()}
		}
		if ch.Pick(5, 0) >= 3 {
			// near-valid: known account, proposer domain, advancing slot, one root of boundary length
			k := ch.Pick(len(g.pop.Accts)-1, 0)
			g.epoch[k] += 2
			g.uniq++
			e := PropEntry(k, g.epoch[k], g.uniq)
			r = &pb.SignBeaconProposalRequest{Id: &pb.SignBeaconProposalRequest_Account{Account: g.pop.Accts[k].Path}, Domain: e.Domain,
				Data: &pb.BeaconBlockHeader{Slot: e.PSlot, ProposerIndex: e.PIdx, ParentRoot: e.Parent, StateRoot: e.State, BodyRoot: e.Body}}
			switch ch.Pick(4, 0) {
			case 0:
				r.Data.ParentRoot = g.bytesField()
			case 1:
				r.Data.StateRoot = g.bytesField()
			case 2:
				r.Data.BodyRoot = g.bytesField()
			default:
				r.Domain = append(append([]byte{}, e.Domain[:4]...), g.bytesField()...)
			}
		}
		return wireCall{"Signer.SignBeaconProposal", rt(r, &pb.SignBeaconProposalRequest{}), func(ctx context.Context, n *Node, r proto.Message) (proto.Message, error) {
			return n.Inst.SignerH.SignBeaconProposal(ctx, r.(*pb.SignBeaconProposalRequest))
		}}
	case 10:
		return wireCall{"AccountManager.Lock", rt(&pb.LockAccountRequest{Account: g.accountName()}, &pb.LockAccountRequest{}), func(ctx context.Context, n *Node, r proto.Message) (proto.Message, error) {
			return n.Inst.AcctH.Lock(ctx, r.(*pb.LockAccountRequest))
		}}
	case 11:
		return wireCall{"AccountManager.Unlock", rt(&pb.UnlockAccountRequest{Account: g.accountName(), Passphrase: g.bytesField()}, &pb.UnlockAccountRequest{}), func(ctx context.Context, n *Node, r proto.Message) (proto.Message, error) {
			return n.Inst.AcctH.Unlock(ctx, r.(*pb.UnlockAccountRequest))
		}}
	case 12:
		// Half of the requests ask for an account that does not exist yet in a wallet that does (of either kind), with small
		// participant and threshold numbers: every combination of wallet kind, one / several participants and threshold.
		gr := &pb.GenerateRequest{Account: g.accountName(), Passphrase: g.bytesField(), Participants: uint32(g.u64()), SigningThreshold: uint32(g.u64())}
		if ch.Pick(2, 0) == 1 {
			gr.Account = fmt.Sprintf("%s/Fresh %d", []string{"Wallet 1", "Wallet 2", "Wallet 3", "Wallet 3"}[ch.Pick(4, 0)], ch.U64()>>40)
			gr.Participants, gr.SigningThreshold = uint32(ch.Pick(5, 0)), uint32(ch.Pick(5, 0))
			if ch.Pick(3, 0) == 0 {
				gr.Passphrase = []byte("pass")
			}
			g.rc.Stats.Inc("probe_generate_requests_for_a_new_name", 1)
		}
		return wireCall{"AccountManager.Generate", rt(gr, &pb.GenerateRequest{}),
			func(ctx context.Context, n *Node, r proto.Message) (proto.Message, error) {
				return n.Inst.AcctH.Generate(ctx, r.(*pb.GenerateRequest))
			}}
	case 13:
		lock := ch.Pick(2, 0) == 0
		wn := []string{"", "Wallet 1", "Wallet 2/Account 0", "Unknown", "Wallet 3", "/"}[ch.Pick(6, 0)]
		if lock {
			return wireCall{"WalletManager.Lock", rt(&pb.LockWalletRequest{Wallet: wn}, &pb.LockWalletRequest{}), func(ctx context.Context, n *Node, r proto.Message) (proto.Message, error) {
				return n.Inst.WalletH.Lock(ctx, r.(*pb.LockWalletRequest))
			}}
		}
		return wireCall{"WalletManager.Unlock", rt(&pb.UnlockWalletRequest{Wallet: wn, Passphrase: g.bytesField()}, &pb.UnlockWalletRequest{}), func(ctx context.Context, n *Node, r proto.Message) (proto.Message, error) {
			return n.Inst.WalletH.Unlock(ctx, r.(*pb.UnlockWalletRequest))
		}}
	default:
		// Key-generation messages from non-peers.
		acct := []string{"", "Wallet 3/x", "NoSlash", "Wallet 3/"}[ch.Pick(4, 0)]
		switch ch.Pick(5, 0) {
		case 0:
			parts := make([]*pb.Endpoint, ch.Pick(4, 0))
			for i := range parts {
				if ch.Pick(5, 0) != 0 {
					parts[i] = &pb.Endpoint{Id: g.u64(), Name: "signer-01", Port: uint32(g.u64())}
				}
			}
			return wireCall{"DKG.Prepare", rtKeepNilPrep(&pb.PrepareRequest{Account: acct, Passphrase: g.bytesField(), Threshold: uint32(g.u64()), Participants: parts}), func(ctx context.Context, n *Node, r proto.Message) (proto.Message, error) {
				return n.Recv.Prepare(ctx, r.(*pb.PrepareRequest))
			}}
		case 1:
			return wireCall{"DKG.Execute", rt(&pb.ExecuteRequest{Account: acct}, &pb.ExecuteRequest{}), func(ctx context.Context, n *Node, r proto.Message) (proto.Message, error) {
				return n.Recv.Execute(ctx, r.(*pb.ExecuteRequest))
			}}
		case 2:
			return wireCall{"DKG.Commit", rt(&pb.CommitRequest{Account: acct, ConfirmationData: g.bytesField()}, &pb.CommitRequest{}), func(ctx context.Context, n *Node, r proto.Message) (proto.Message, error) {
				return n.Recv.Commit(ctx, r.(*pb.CommitRequest))
			}}
		case 3:
			return wireCall{"DKG.Abort", rt(&pb.AbortRequest{Account: acct}, &pb.AbortRequest{}), func(ctx context.Context, n *Node, r proto.Message) (proto.Message, error) {
				return n.Recv.Abort(ctx, r.(*pb.AbortRequest))
			}}
		default:
			vv := make([][]byte, ch.Pick(4, 0))
			for i := range vv {
				vv[i] = g.bytesField()
			}
			return wireCall{"DKG.Contribute", rt(&pb.ContributeRequest{Account: acct, Secret: g.bytesField(), VerificationVector: vv}, &pb.ContributeRequest{}), func(ctx context.Context, n *Node, r proto.Message) (proto.Message, error) {
				return n.Recv.Contribute(ctx, r.(*pb.ContributeRequest))
			}}
		}
	}
}

func (g *wireGen) signReqNonNil() *pb.SignRequest {
	for {
		if r := g.signReq(); r != nil {
			return r
		}
	}
}

// Repeated message fields cannot carry nil on the wire; a nil entry is what an in-process caller
// could pass, so such requests skip the round trip (handlers validate nil entries explicitly).
func rtKeepNil(m *pb.MultisignRequest) proto.Message {
	for _, r := range m.Requests {
		if r == nil {
			return m
		}
	}
	return rt(m, &pb.MultisignRequest{})
}

func rtKeepNilAtts(m *pb.SignBeaconAttestationsRequest) proto.Message {
	for _, r := range m.Requests {
		if r == nil {
			return m
		}
	}
	return rt(m, &pb.SignBeaconAttestationsRequest{})
}

func rtKeepNilPrep(m *pb.PrepareRequest) proto.Message {
	for _, r := range m.Participants {
		if r == nil {
			return m
		}
	}
	return rt(m, &pb.PrepareRequest{})
}

// callGuarded runs a handler call on its own goroutine (as gRPC does) with a real-time limit.
func callGuarded(limit time.Duration, f func() (proto.Message, error)) (res proto.Message, err error, panicked string, answered bool) {
	type out struct {
		m   proto.Message
		err error
		p   string
	}
	ch := make(chan out, 1)
	go func() {
		var o out
		defer func() {
			if r := recover(); r != nil {
				o.p = fmt.Sprint(r)
			}
			ch <- o
		}()
		o.m, o.err = f()
	}()
	select {
	case o := <-ch:
		return o.m, o.err, o.p, true
	case <-time.After(limit):
		return nil, nil, "", false
	}
}

// runWire is the body of C20.
func runWire(t *testing.T, rc *RunCtx) {
	if rc.Param("mode", "") == "daemon" {
		runDaemonWire(t, rc)
		return
	}
	if rc.Param("mode", "") == "free" {
		runFreeWire(t, rc)
		return
	}
	InitBLS()
	ch := rc.Ch
	s := NewSched(rc, SchedCfg{})
	defer s.Close()
	w1 := WalletSpec{Name: "Wallet 1", Kind: "nd", Accounts: []string{"Account 0", "Account 1", "Account 2"}}
	w2 := WalletSpec{Name: "Wallet 2", Kind: "nd", Accounts: []string{"Account 0", "Canary"}}
	c := NewCluster(t, rc, s, ClusterCfg{IDs: []uint64{1, 2}, Specs: []WalletSpec{w1, w2, {Name: "Wallet 3", Kind: "distributed"}}})
	defer c.Close()
	n := c.Nodes[0]
	g := &wireGen{rc: rc, pop: n.Pop, epoch: map[int]uint64{}}
	wireMutator = g.mutateWire
	defer func() { wireMutator = nil }()
	canaryAcct := n.Pop.ByPath("Wallet 2/Canary")
	nReq := 8 + ch.Pick(24, 0)
	var desc []string
	canaryEpoch := uint64(0)
	for i := 0; i < nReq && len(rc.Viol) == 0; i++ {
		wc := g.next()
		client := []string{"client1", "client1", "client1", "client2", "", "stranger", "signer-02"}[ch.Pick(7, 0)]
		ip := []string{"", "10.0.0.1", "8.8.8.8"}[ch.Pick(3, 0)]
		if len(wc.name) > 4 && wc.name[:4] == "DKG." && client == "signer-02" {
			// C20 covers key-generation messages from non-peers only (a peer can, for instance, name a
			// threshold of 2^30 in Prepare and exhaust memory; recorded as an observation in DESIGN.md).
			client = "stranger"
		}
		ctx := n.Inst.ClientCtx(client, ip)
		// Written ahead of the call: if the process dies here, this is the request that killed it.
		line := fmt.Sprintf("%s as %q: %s", wc.name, client, truncate(fmt.Sprint(wc.req), 300))
		rc.Logf("req %d %s", i, line)
		fmt.Printf("VERIF-C20-REQUEST seed=%d #%d %s\n", rc.Seed, i, truncate(line, 400))
		desc = append(desc, wc.name)
		rc.Stats.Seen("cases", wc.name+"/"+hexShort(h32(fmt.Sprint(wc.req))))
		rc.Stats.Inc("requests", 1)
		res, err, panicked, answered := callGuarded(30*time.Second, func() (proto.Message, error) { return wc.call(ctx, n, wc.req) })
		switch {
		case panicked != "":
			rc.Violate("C20", "panic-in-handler", fmt.Sprintf("%s: %s", line, panicked), i)
		case !answered:
			rc.Violate("C20", "request-never-answered", line, i)
		case res == nil && err == nil:
			rc.Violate("C20", "neither-response-nor-error", line, i)
		}
		if len(rc.Viol) > 0 {
			break
		}
		// Canary: another client's ordinary request is still served afterwards.
		canaryEpoch++
		e := AttEntry(canaryAcct.idx, canaryEpoch, canaryEpoch+1, uint64(1_000_000+i))
		cres, cerr, cp, cans := callGuarded(30*time.Second, func() (proto.Message, error) {
			return n.Inst.SignerH.SignBeaconAttestation(n.Inst.ClientCtx("client2", ""), &pb.SignBeaconAttestationRequest{
				Id: &pb.SignBeaconAttestationRequest_Account{Account: canaryAcct.Path}, Domain: e.Domain, Data: e.attData()})
		})
		ok := cans && cp == "" && cerr == nil && cres != nil && cres.(*pb.SignResponse).GetState() == pb.ResponseState_SUCCEEDED
		if !ok {
			rc.Violate("C20", "instance-stopped-serving", fmt.Sprintf("after %s the canary request of another client was not served (answered=%v panic=%q err=%v res=%v)", line, cans, cp, cerr, cres), i)
		}
		rc.Stats.Inc("canaries_served", 1)
	}
	rc.Sample = map[string]any{"requests": desc}
}

func truncate(s string, n int) string {
	if len(s) > n {
		return s[:n] + "..."
	}
	return s
}

func init() {
	propRunners["C20"] = runWire
	noBubble["C20"] = true
}
