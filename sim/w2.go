package sim

import (
	"context"
	"fmt"
	"sort"
	"sync"
	"testing"
	"time"

	"github.com/attestantio/dirk/core"
	receiverhandler "github.com/attestantio/dirk/services/api/grpc/handlers/receiver"
	"github.com/attestantio/dirk/services/api/grpc/interceptors"
	"github.com/attestantio/dirk/services/checker"
	staticpeers "github.com/attestantio/dirk/services/peers/static"
	"github.com/attestantio/dirk/services/process"
	standardprocess "github.com/attestantio/dirk/services/process/standard"
	"github.com/attestantio/dirk/services/sender"
	sendergrpc "github.com/attestantio/dirk/services/sender/grpc"
	localunlocker "github.com/attestantio/dirk/services/unlocker/local"
	"github.com/attestantio/dirk/testing/resources"
	"github.com/attestantio/dirk/util"
	"github.com/herumi/bls-eth-go-binary/bls"
	pb "github.com/wealdtech/eth2-signer-api/pb/v1"
	e2wtypes "github.com/wealdtech/go-eth2-wallet-types/v2"
	"google.golang.org/protobuf/proto"
)

// Node is one Dirk instance of a simulated cluster.
type Node struct {
	ID    uint64
	Name  string
	Port  uint32
	Pop   *Population
	Inst  *Instance
	Recv  *receiverhandler.Handler
	Peers *PeersWrap
	Proc  process.Service
	c     *Cluster
	// Panicked is set when a handler call on this node panicked (a real daemon would have died).
	Panicked string
	// StoreHook, when set, is told about every wallet-store operation of the instance before it happens.
	StoreHook func(op string)
}

// Cluster is a set of Dirk instances connected only by the simulated transport.
type Cluster struct {
	// PromptUse: a generating client uses the account at once (see spawnGenerate).
	PromptUse  bool
	realSender bool
	shareMu    sync.Mutex
	sentShares map[string]uint64 // share handed to the real sender -> identifier of the participant it was computed for
	// OmitPassphrase: generation requests of clients carry no passphrase (the configured one is used).
	OmitPassphrase bool
	rc             *RunCtx
	t              *testing.T
	S              *Sched
	Nodes          []*Node
	byName         map[string]*Node
	Net            *Transport
	Timeout        time.Duration
	Perms          map[string][]*checker.Permissions
	AdminIPs       []string
}

// PeersWrap is the real static peers service with Suitable re-implemented: the real one iterates
// a Go map, which would make participant order (and so the message sequence) unrepeatable; here
// the order is fixed by the choice source at cluster creation.
type PeersWrap struct {
	*staticpeers.Service // the concrete service: further methods it may offer stay visible to type assertions
	order                []uint64
}

// Suitable returns the first n peers in the drawn order.
func (p *PeersWrap) Suitable(n uint32) ([]*core.Endpoint, error) {
	if int(n) > len(p.order) {
		return nil, fmt.Errorf("not enough suitable peers")
	}
	out := make([]*core.Endpoint, n)
	for i := range out {
		e, err := p.Service.Peer(p.order[i])
		if err != nil {
			return nil, err
		}
		out[i] = e
	}
	return out, nil
}

// ClusterCfg configures a cluster.
type ClusterCfg struct {
	IDs        []uint64
	Order      []uint64 // participant selection order (ids); default = IDs
	Timeout    time.Duration
	Perms      map[string][]*checker.Permissions
	NdAccounts int // accounts per node in nd wallet "Wallet 1" (0 = none)
	Specs      []WalletSpec
	NameFmt    string   // instance / peer names; default "signer-%02d"
	AdminIPs   []string // administrator addresses of every instance; default 10.0.0.1
	// ForwardedPorts: every instance but the first lists one other instance under another port than the rest do.
	ForwardedPorts bool
	ExtraPeers     map[uint64]string // further entries of every instance's peer table (configured peers that are not running)
	Pops           []*Population     // ready-made populations for the first nodes (instead of Specs)
	// RealSender: the instances talk to each other through Dirk's own sender (services/sender/grpc: connection pool,
	// TLS with the instance's certificate) and each other's real gRPC edge; Ports are the edges' loopback ports.
	RealSender bool
	Ports      []int
}

// NewCluster builds n instances, each with its own wallet store, badger directory and services.
func NewCluster(t *testing.T, rc *RunCtx, s *Sched, cfg ClusterCfg) *Cluster {
	InitBLS()
	c := &Cluster{rc: rc, t: t, S: s, byName: map[string]*Node{}, Timeout: cfg.Timeout, Perms: cfg.Perms, AdminIPs: cfg.AdminIPs, realSender: cfg.RealSender}
	if c.AdminIPs == nil {
		c.AdminIPs = []string{"10.0.0.1"}
	}
	if c.Timeout == 0 {
		c.Timeout = 70 * time.Second
	}
	if c.Perms == nil {
		c.Perms = FullPermissions("client1", "client2")
	}
	c.Net = &Transport{c: c, Plan: map[string]string{}, Seen: map[string]int{}, Fired: map[string]int{}}
	if cfg.NameFmt == "" {
		cfg.NameFmt = "signer-%02d"
	}
	peerMap := map[uint64]string{}
	for i, id := range cfg.IDs {
		name := fmt.Sprintf(cfg.NameFmt, i+1)
		peerMap[id] = fmt.Sprintf("%s:%d", name, 9000+i)
		if i < len(cfg.Ports) {
			peerMap[id] = fmt.Sprintf("%s:%d", name, cfg.Ports[i])
		}
	}
	for id, addr := range cfg.ExtraPeers {
		peerMap[id] = addr
	}
	order := cfg.Order
	if order == nil {
		order = cfg.IDs
	}
	for i, id := range cfg.IDs {
		n := &Node{ID: id, Name: fmt.Sprintf(cfg.NameFmt, i+1), Port: uint32(9000 + i), c: c}
		if i < len(cfg.Ports) {
			n.Port = uint32(cfg.Ports[i])
		}
		specs := cfg.Specs
		if specs == nil {
			specs = []WalletSpec{{Name: "Wallet 3", Kind: "distributed"}}
			if cfg.NdAccounts > 0 {
				w1 := WalletSpec{Name: "Wallet 1", Kind: "nd"}
				for a := 0; a < cfg.NdAccounts; a++ {
					w1.Accounts = append(w1.Accounts, fmt.Sprintf("Account %d", a))
				}
				specs = append(specs, w1)
			}
		}
		if i < len(cfg.Pops) && cfg.Pops[i] != nil {
			n.Pop = cfg.Pops[i]
		} else {
			n.Pop = NewPopulation(t, fmt.Sprintf("node%d", i), specs)
		}
		myPeers := peerMap
		if cfg.ForwardedPorts && i > 0 && len(cfg.IDs) > 1 {
			// This instance reaches one of the others through a forwarded port: same name, another port in its own table.
			myPeers = map[uint64]string{}
			for k, v := range peerMap {
				myPeers[k] = v
			}
			j := (i + 1) % len(cfg.IDs)
			myPeers[cfg.IDs[j]] = fmt.Sprintf("%s:%d", fmt.Sprintf(cfg.NameFmt, j+1), 9000+j+forwardedPortOffset)
		}
		sp, err := staticpeers.New(context.Background(), staticpeers.WithPeers(myPeers))
		if err != nil {
			t.Fatalf("peers: %v", err)
		}
		n.Peers = &PeersWrap{Service: sp, order: order}
		c.Nodes = append(c.Nodes, n)
		c.byName[n.Name] = n
		c.startNode(n, NewRunDir(t))
	}
	return c
}

// startNode (re)starts the instance of a node on a storage directory.
func (c *Cluster) startNode(n *Node, dir string) {
	inst, err := NewInstance(c.S, n.Name, InstCfg{Dir: dir, Pop: n.Pop, Permissions: c.Perms, AdminIPs: c.AdminIPs,
		MakeProcess: func(inst *Instance) (process.Service, error) {
			ul, err := localunlocker.New(inst.Ctx, localunlocker.WithWalletPassphrases([]string{"pass"}), localunlocker.WithAccountPassphrases([]string{"pass"}))
			if err != nil {
				return nil, err
			}
			var snd sender.Service = &nodeSender{net: c.Net, from: n}
			if c.realSender {
				rs, err := sendergrpc.New(inst.Ctx, sendergrpc.WithName(n.Name), sendergrpc.WithServerCert(resources.SignerCerts[n.ID]),
					sendergrpc.WithServerKey(resources.SignerKeys[n.ID]), sendergrpc.WithCACert(resources.CACrt))
				if err != nil {
					return nil, err
				}
				snd = &recordingSender{Service: rs, c: c}
			}
			return standardprocess.New(inst.Ctx,
				standardprocess.WithChecker(inst.Checker),
				standardprocess.WithUnlocker(ul),
				standardprocess.WithSender(snd),
				standardprocess.WithFetcher(inst.FetcherW),
				standardprocess.WithEncryptor(n.Pop.Encryptor),
				standardprocess.WithPeers(n.Peers),
				standardprocess.WithID(n.ID),
				standardprocess.WithStores([]e2wtypes.Store{&yieldStore{inner: n.Pop.Store, s: c.S, inst: func() *Instance { return n.Inst }, hook: func() func(string) { return n.StoreHook }}}),
				standardprocess.WithGenerationPassphrase([]byte("pass")),
				standardprocess.WithGenerationTimeout(c.Timeout),
			)
		}})
	if err != nil {
		c.t.Fatalf("node %s: %v", n.Name, err)
	}
	n.Inst = inst
	n.Proc = inst.Process
	n.Recv, err = receiverhandler.New(inst.Ctx, receiverhandler.WithPeers(n.Peers), receiverhandler.WithProcess(inst.Process))
	if err != nil {
		c.t.Fatalf("receiver %s: %v", n.Name, err)
	}
}

// Close shuts every node down.
func (c *Cluster) Close() {
	for _, n := range c.Nodes {
		n.Inst.Close()
	}
}

// NodeByID finds a node.
func (c *Cluster) NodeByID(id uint64) *Node {
	for _, n := range c.Nodes {
		if n.ID == id {
			return n
		}
	}
	return nil
}

// PeerCtx is the context a node's receiver sees for a call authenticated as `caller`.
func (n *Node) PeerCtx(caller string) context.Context {
	ctx := n.Inst.Ctx
	if caller != "" {
		ctx = context.WithValue(ctx, &interceptors.ClientName{}, caller)
	}
	return ctx
}

// guard runs a handler call the way a daemon without a recovery interceptor would experience it:
// a panic kills the instance.  The simulator records it and turns it into an error for the caller.
func (n *Node) guard(what string, f func() error) (err error) {
	defer func() {
		if r := recover(); r != nil {
			n.Panicked = fmt.Sprintf("%s: %v", what, r)
			n.c.rc.Logf("PANIC in %s on %s: %v", what, n.Name, r)
			n.c.rc.Stats.Inc("instance_panics", 1)
			err = fmt.Errorf("transport: connection lost (peer crashed)")
		}
	}()
	return f()
}

// ---------------------------------------------------------------------------------------------

// Msg identifies one protocol message for fault addressing: from>to/kind/account#occurrence.
func msgID(from, to *Node, kind, account string, occ int) string {
	return fmt.Sprintf("%s>%s/%s/%s#%d", from.Name, to.Name, kind, account, occ)
}

// Contribution is what the transport saw in one contribute request or reply.
type Contribution struct {
	From, To uint64 // originator of the share, and the participant it was handed to
	Account  string
	Secret   []byte
	VVec     [][]byte
	Reply    bool
}

// Transport replaces services/sender/grpc: it carries the same protobuf messages (through a
// marshal/unmarshal round trip) straight into the destination's real receiver handler, under the
// authenticated name the real TLS interceptor would have derived, and is where message faults are injected.
type Transport struct {
	c    *Cluster
	mu   sync.Mutex
	Plan map[string]string // message id (or id prefix without #occurrence) -> fault kind
	Seen map[string]int    // message id without occurrence -> count
	// Log is the canonical message log of the run.
	Log           []string
	Fired         map[string]int
	Contributions []Contribution
	// Dynamic, if set, is asked for a fault when none is planned (random fault mode).
	Dynamic func(id, kind string) string
}

func (tr *Transport) next(from, to *Node, kind, account string) (string, string) {
	tr.mu.Lock()
	defer tr.mu.Unlock()
	base := fmt.Sprintf("%s>%s/%s/%s", from.Name, to.Name, kind, account)
	occ := tr.Seen[base]
	tr.Seen[base] = occ + 1
	id := fmt.Sprintf("%s#%d", base, occ)
	fault := tr.Plan[id]
	if fault == "" && tr.Dynamic != nil {
		fault = tr.Dynamic(id, kind)
	}
	if fault != "" {
		tr.Fired[kind+":"+fault]++
	}
	tr.Log = append(tr.Log, id+" "+fault)
	return id, fault
}

func roundTrip[T proto.Message](m T, fresh T) T {
	b, err := proto.Marshal(m)
	if err != nil {
		panic(err)
	}
	if err := proto.Unmarshal(b, fresh); err != nil {
		panic(err)
	}
	return fresh
}

var errLost = fmt.Errorf("transport: message lost (deadline exceeded)")
var errRemote = fmt.Errorf("transport: remote returned an error")

type nodeSender struct {
	net  *Transport
	from *Node
}

func (s *nodeSender) dest(peer *core.Endpoint) (*Node, error) {
	n := s.net.c.byName[peer.Name]
	if n == nil || (n.Port != peer.Port && n.Port+forwardedPortOffset != peer.Port) {
		return nil, fmt.Errorf("transport: no route to %s", peer.String())
	}
	return n, nil
}

// deliver implements the common fault handling of a unary call.
func (s *nodeSender) deliver(to *Node, kind, account string, call func() error) error {
	id, fault := s.net.next(s.from, to, kind, account)
	sc := s.net.c.S
	sc.Yield(KSend, kind, s.from.Name, nil, nil, id)
	switch fault {
	case "lost":
		return errLost
	case "error-reply":
		_ = to.guard(kind, call)
		return errRemote
	case "lost-reply":
		_ = to.guard(kind, call)
		sc.Yield(KReply, kind, s.from.Name, nil, nil, id)
		return errLost
	case "duplicate":
		err := to.guard(kind, call)
		_ = to.guard(kind, call)
		sc.Yield(KReply, kind, s.from.Name, nil, nil, id)
		return err
	}
	err := to.guard(kind, call)
	sc.Yield(KReply, kind, s.from.Name, nil, nil, id)
	return err
}

// Prepare carries a prepare request.
func (s *nodeSender) Prepare(_ context.Context, peer *core.Endpoint, account string, passphrase []byte, threshold uint32, participants []*core.Endpoint) error {
	to, err := s.dest(peer)
	if err != nil {
		return err
	}
	req := &pb.PrepareRequest{Account: account, Passphrase: passphrase, Threshold: threshold}
	for _, p := range participants {
		req.Participants = append(req.Participants, &pb.Endpoint{Id: p.ID, Name: p.Name, Port: p.Port})
	}
	return s.deliver(to, "prepare", account, func() error {
		_, err := to.Recv.Prepare(to.PeerCtx(s.from.Name), roundTrip(req, &pb.PrepareRequest{}))
		return err
	})
}

// Execute carries an execute request.
func (s *nodeSender) Execute(_ context.Context, peer *core.Endpoint, account string) error {
	to, err := s.dest(peer)
	if err != nil {
		return err
	}
	req := &pb.ExecuteRequest{Account: account}
	return s.deliver(to, "execute", account, func() error {
		_, err := to.Recv.Execute(to.PeerCtx(s.from.Name), roundTrip(req, &pb.ExecuteRequest{}))
		return err
	})
}

// Abort carries an abort request.
func (s *nodeSender) Abort(_ context.Context, peer *core.Endpoint, account string) error {
	to, err := s.dest(peer)
	if err != nil {
		return err
	}
	req := &pb.AbortRequest{Account: account}
	return s.deliver(to, "abort", account, func() error {
		_, err := to.Recv.Abort(to.PeerCtx(s.from.Name), roundTrip(req, &pb.AbortRequest{}))
		return err
	})
}

// Commit carries a commit request and its reply.
func (s *nodeSender) Commit(_ context.Context, peer *core.Endpoint, account string, confirmationData []byte) ([]byte, []byte, error) {
	to, err := s.dest(peer)
	if err != nil {
		return nil, nil, err
	}
	req := &pb.CommitRequest{Account: account, ConfirmationData: confirmationData}
	var res *pb.CommitResponse
	id, fault := "", ""
	_ = id
	err = s.deliverWith(to, "commit", account, &fault, func() error {
		r, err := to.Recv.Commit(to.PeerCtx(s.from.Name), roundTrip(req, &pb.CommitRequest{}))
		if err == nil {
			res = roundTrip(r, &pb.CommitResponse{})
		}
		return err
	})
	if err != nil {
		return nil, nil, err
	}
	if res == nil {
		return nil, nil, errRemote
	}
	switch fault {
	case "tamper-reply-pubkey":
		var sk bls.SecretKey
		sk.SetByCSPRNG()
		res.PublicKey = sk.GetPublicKey().Serialize()
	case "tamper-reply-sig":
		var sk bls.SecretKey
		sk.SetByCSPRNG()
		res.ConfirmationSignature = sk.SignByte(confirmationData).Serialize()
	case "tamper-reply-empty-pubkey":
		res.PublicKey = nil
	case "tamper-reply-empty-sig":
		res.ConfirmationSignature = nil
	}
	return res.GetPublicKey(), res.GetConfirmationSignature(), nil
}

// deliverWith is deliver that also reports the planned fault to the caller (for reply tampering).
func (s *nodeSender) deliverWith(to *Node, kind, account string, faultOut *string, call func() error) error {
	id, fault := s.net.next(s.from, to, kind, account)
	*faultOut = fault
	sc := s.net.c.S
	sc.Yield(KSend, kind, s.from.Name, nil, nil, id)
	switch fault {
	case "lost":
		return errLost
	case "error-reply":
		_ = to.guard(kind, call)
		return errRemote
	case "lost-reply":
		_ = to.guard(kind, call)
		sc.Yield(KReply, kind, s.from.Name, nil, nil, id)
		return errLost
	case "duplicate":
		err := to.guard(kind, call)
		_ = to.guard(kind, call)
		sc.Yield(KReply, kind, s.from.Name, nil, nil, id)
		return err
	}
	err := to.guard(kind, call)
	sc.Yield(KReply, kind, s.from.Name, nil, nil, id)
	return err
}

// maliciousContribution builds an internally consistent (share, vector) pair of the given vector
// length for the recipient id, as a dishonest participant could.
func maliciousContribution(recipient uint64, length int) ([]byte, [][]byte) {
	sks := make([]bls.SecretKey, length)
	vvec := make([][]byte, length)
	for i := range sks {
		sks[i].SetByCSPRNG()
		vvec[i] = sks[i].GetPublicKey().Serialize()
	}
	var share bls.SecretKey
	if length > 0 {
		var id bls.ID
		blsID(&id, recipient)
		if err := share.Set(sks, &id); err != nil {
			panic(err)
		}
	} else {
		share.SetByCSPRNG()
	}
	return share.Serialize(), vvec
}

func blsID(id *bls.ID, v uint64) {
	*id = *util.BLSID(v)
}

// tamperContribution applies a contribution fault to (secret, vvec) destined for `recipient`.
func (tr *Transport) tamperContribution(fault string, originator, recipient uint64, account string, secret []byte, vvec [][]byte) ([]byte, [][]byte) {
	cp := func() [][]byte {
		out := make([][]byte, len(vvec))
		for i := range vvec {
			out[i] = append([]byte{}, vvec[i]...)
		}
		return out
	}
	randPK := func() []byte {
		var sk bls.SecretKey
		sk.SetByCSPRNG()
		return sk.GetPublicKey().Serialize()
	}
	switch fault {
	case "share-replaced":
		var sk bls.SecretKey
		sk.SetByCSPRNG()
		return sk.Serialize(), vvec
	case "share-other-id":
		tr.mu.Lock()
		defer tr.mu.Unlock()
		for _, c := range tr.Contributions {
			if c.From == originator && c.To != recipient && c.Account == account {
				return c.Secret, vvec
			}
		}
		// Nothing seen yet from this originator: use a share of a fresh polynomial instead (still not the recipient's).
		s, _ := maliciousContribution(recipient+1, len(vvec))
		return s, vvec
	case "commitment-altered":
		v := cp()
		if len(v) > 0 {
			v[len(v)-1] = randPK()
		}
		return secret, v
	case "commitment0-altered":
		v := cp()
		if len(v) > 0 {
			v[0] = randPK()
		}
		return secret, v
	case "vvec-short":
		v := cp()
		if len(v) > 0 {
			v = v[:len(v)-1]
		}
		return secret, v
	case "vvec-long":
		return secret, append(cp(), randPK())
	case "vvec-short-consistent":
		return maliciousContribution(recipient, len(vvec)-1)
	case "vvec-long-consistent":
		return maliciousContribution(recipient, len(vvec)+1)
	case "vvec-empty":
		return secret, nil
	}
	return secret, vvec
}

// SendContribution carries a contribute request and its reply.
func (s *nodeSender) SendContribution(_ context.Context, peer *core.Endpoint, account string, distributionSecret bls.SecretKey, verificationVector []bls.PublicKey) (bls.SecretKey, []bls.PublicKey, error) {
	to, err := s.dest(peer)
	if err != nil {
		return bls.SecretKey{}, nil, err
	}
	tr := s.net
	vv := make([][]byte, len(verificationVector))
	for i := range verificationVector {
		vv[i] = verificationVector[i].Serialize()
	}
	sec := distributionSecret.Serialize()
	tr.mu.Lock()
	tr.Contributions = append(tr.Contributions, Contribution{From: s.from.ID, To: to.ID, Account: account, Secret: sec, VVec: vv})
	tr.mu.Unlock()
	var res *pb.ContributeResponse
	fault := ""
	req := &pb.ContributeRequest{Account: account, Secret: sec, VerificationVector: vv}
	tampered := false
	err = s.deliverWith(to, "contribute", account, &fault, func() error {
		if !tampered && len(fault) > 4 && fault[:4] == "req-" {
			tampered = true
			req.Secret, req.VerificationVector = tr.tamperContribution(fault[4:], s.from.ID, to.ID, account, sec, vv)
		}
		r, err := to.Recv.Contribute(to.PeerCtx(s.from.Name), roundTrip(req, &pb.ContributeRequest{}))
		if err == nil {
			res = roundTrip(r, &pb.ContributeResponse{})
		}
		return err
	})
	if err != nil {
		return bls.SecretKey{}, nil, err
	}
	if res == nil {
		return bls.SecretKey{}, nil, errRemote
	}
	if len(fault) > 12 && fault[:12] == "redelivered-" {
		// The genuine contribution has been delivered and answered; the same participant's message now arrives a second
		// time in altered form (a faulty or dishonest sender re-sending).  Whatever the receiver says to it is dropped.
		req2 := &pb.ContributeRequest{Account: account}
		req2.Secret, req2.VerificationVector = tr.tamperContribution(fault[12:], s.from.ID, to.ID, account, sec, vv)
		_ = to.guard("contribute", func() error {
			_, err := to.Recv.Contribute(to.PeerCtx(s.from.Name), roundTrip(req2, &pb.ContributeRequest{}))
			return err
		})
	}
	tr.mu.Lock()
	tr.Contributions = append(tr.Contributions, Contribution{From: to.ID, To: s.from.ID, Account: account, Secret: res.GetSecret(), VVec: res.GetVerificationVector(), Reply: true})
	tr.mu.Unlock()
	rs, rv := res.GetSecret(), res.GetVerificationVector()
	if len(fault) > 6 && fault[:6] == "reply-" {
		rs, rv = tr.tamperContribution(fault[6:], to.ID, s.from.ID, account, rs, rv)
	}
	var out bls.SecretKey
	if err := out.Deserialize(rs); err != nil {
		return bls.SecretKey{}, nil, fmt.Errorf("returned invalid secret key")
	}
	outV := make([]bls.PublicKey, len(rv))
	for i := range rv {
		if err := outV[i].Deserialize(rv[i]); err != nil {
			return bls.SecretKey{}, nil, fmt.Errorf("returned invalid verification vector")
		}
	}
	return out, outV, nil
}

// CanonicalLog returns the message log with sibling sends sorted (OnExecute iterates a Go map).
func (tr *Transport) CanonicalLog() []string {
	tr.mu.Lock()
	defer tr.mu.Unlock()
	out := append([]string{}, tr.Log...)
	sort.Strings(out)
	return out
}

// recordingSender notes, for every contribution an instance hands to its (real) sender, whom the share was computed for.
type recordingSender struct {
	sender.Service
	c *Cluster
}

func (r *recordingSender) SendContribution(ctx context.Context, recipient *core.Endpoint, account string, secret bls.SecretKey, vVec []bls.PublicKey) (bls.SecretKey, []bls.PublicKey, error) {
	r.c.shareMu.Lock()
	if r.c.sentShares == nil {
		r.c.sentShares = map[string]uint64{}
	}
	r.c.sentShares[string(secret.Serialize())] = recipient.ID
	r.c.shareMu.Unlock()
	return r.Service.SendContribution(ctx, recipient, account, secret, vVec)
}

// shareMeantFor returns the participant a share seen on the wire was computed for (0: not a share any sender handed over).
func (c *Cluster) shareMeantFor(secret []byte) uint64 {
	c.shareMu.Lock()
	defer c.shareMu.Unlock()
	return c.sentShares[string(secret)]
}

// forwardedPortOffset separates the port under which an instance is listed by a peer that reaches it through a forwarder.
const forwardedPortOffset = 20000
