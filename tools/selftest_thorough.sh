#!/bin/bash
# Determinism self-test at scale: 16 properties x 40 seeds, each run twice per process in six processes
# (GOMAXPROCS 1, 4, 16, two processes each); the event-log hashes must agree everywhere.
set -euo pipefail
cd "$(dirname "$0")/.."
export GOFLAGS=-mod=mod GOPROXY=off GOSUMDB=off GOTOOLCHAIN=local
W=$(mktemp -d /dev/shm/verif-selftest.XXXXXX)
trap 'rm -rf "$W"' EXIT
bin/build_sim.sh "$W/sim.test" /repo
python3 bin/selftest.py "$W/sim.test" thorough
