#!/usr/bin/env python3
"""Run registered checks against a confirmed seeded change in a scratch worktree of /repo.
usage: seed_eval.py <seed id> <property> [tier] ; records the outcome in /verif/seeded/<id>/meta.json"""
import json, os, re, subprocess, sys, time
sid, prop = sys.argv[1], sys.argv[2]
tier = sys.argv[3] if len(sys.argv) > 3 else "quick"
HOME = os.environ.get("VERIF_HOME", "/verif")
d = "%s/seeded/%s" % (HOME, sid)
wt = "/tmp/seedeval-%s-%d" % (sid, os.getpid())
subprocess.run(["git", "-C", "/repo", "worktree", "add", "-q", "--detach", wt, "HEAD"], check=True)
try:
    subprocess.run(["git", "-C", wt, "apply", os.path.join(d, "patch.diff")], check=True)
    t0 = time.time()
    env = dict(os.environ, VERIF_REPO=wt, VERIF_EVIDENCE_DIR="/tmp/seedeval-evidence-%d" % os.getpid())
    r = subprocess.run([HOME + "/bin/check", prop, tier], env=env, capture_output=True, text=True, cwd=HOME)
    keys = sorted(set(re.findall(r"violation (\S+?):", r.stderr)))
    out = dict(check=prop, tier=tier, exit=r.returncode, detected=r.returncode == 1, violation_keys=keys, wall_s=round(time.time() - t0, 1),
               first_lines=(r.stdout + r.stderr).strip().splitlines()[:6])
finally:
    subprocess.run(["git", "-C", "/repo", "worktree", "remove", "--force", wt])
mp = os.path.join(d, "meta.json")
meta = json.load(open(mp)) if os.path.exists(mp) else {}
am = json.load(open(os.path.join(d, "agent_meta.json"))) if os.path.exists(os.path.join(d, "agent_meta.json")) else {}
meta.setdefault("property", am.get("property", prop))
meta.setdefault("summary", am.get("summary", ""))
meta.setdefault("needs", am.get("needs", ""))
meta.setdefault("confirmed", json.load(open(os.path.join(d, "confirm.json"))) if os.path.exists(os.path.join(d, "confirm.json")) else {})
meta.setdefault("evaluations", [])
meta["evaluations"] = [e for e in meta["evaluations"] if not (e["check"] == prop and e["tier"] == tier)] + [out]
json.dump(meta, open(mp, "w"), indent=1)
for f in os.listdir(HOME + "/replays"):
    if f.endswith(".json"):
        os.remove(os.path.join(HOME + "/replays", f))
print(sid, prop, tier, "DETECTED" if out["detected"] else "MISSED(exit %d)" % r.returncode, keys, "%.0fs" % out["wall_s"])
