#!/bin/bash
# Re-run a sample of earlier seeded changes (tools/regression_sample.txt: "<seed id> <check>") after generator changes.
# Results go to stdout only (meta.json files of a snapshot are not the committed ones).
cd "$(dirname "$0")/.."
while read -r id prop; do
  [ -n "$id" ] && VERIF_HOME=$(pwd) python3 tools/seed_eval.py "$id" "$prop" quick 2>&1 | tail -1
done < tools/regression_sample.txt
