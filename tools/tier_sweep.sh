#!/bin/bash
# Run one tier of every registered check (or of the listed ones) on the tree VERIF_REPO points at (default /repo)
# and print one line per check.  Evidence goes to a scratch directory, not to evidence/.
# usage: tier_sweep.sh <tier> <seed> <scale> [ids...]      e.g. tier_sweep.sh thorough 7 0.15
set -u
cd "$(dirname "$0")/.."
TIER=$1; SEED=$2; SCALE=$3; shift 3
IDS=${*:-C01 C02 C03 C04 C05 C06 C07 C08 C09 C10 C11 C12 C13 C14 C15 C16 C17 C18 C19 C20}
EV=$(mktemp -d /dev/shm/verif-sweep-ev.XXXXXX)
trap 'rm -rf "$EV"' EXIT
for id in $IDS; do
  t0=$(date +%s)
  out=$(VERIF_SEED=$SEED VERIF_BUDGET_SCALE=$SCALE VERIF_EVIDENCE_DIR=$EV bin/check $id $TIER 2>"$EV/$id.err"); rc=$?
  echo "$id tier=$TIER seed=$SEED scale=$SCALE exit=$rc $(( $(date +%s) - t0 ))s :: $(echo "$out" | tail -1)"
  if [ $rc -ne 0 ]; then tail -25 "$EV/$id.err"; fi
done
