#!/bin/bash
# Reach measure: statement coverage of attestantio/dirk's own packages by the simulated runs of every property
# (one worker process per property, quick-sized).  Not a registered check; output: /verif/tools/coverage.txt
set -euo pipefail
cd "$(dirname "$0")/../sim"
export GOFLAGS=-mod=mod GOPROXY=off GOSUMDB=off GOTOOLCHAIN=local
W=$(mktemp -d /dev/shm/verif-cover.XXXXXX)
trap 'rm -rf "$W"' EXIT
cp /repo/go.sum go.sum
go1.26.8 test -c -tags verif -cover -coverpkg=github.com/attestantio/dirk/... -o "$W/sim.cover.test" .
(cd /repo && GOTOOLCHAIN=local go build -tags verif -o "$W/dirk" .)
for p in C01 C02 C03 C04 C05 C06 C07 C08 C09 C10 C11 C12 C13 C14 C15 C16 C17 C18 C19 C20; do
  params=""
  case $p in C06|C13|C16|C19) params="mode=matrix,mw=0,mW=1";; esac
  ( cd "$W" && VERIF_DIRK="$W/dirk" VERIF_PROP=$p VERIF_RUNS=${RUNS:-150} VERIF_SEED_BASE=4294967296 VERIF_PARAMS="$params" VERIF_OUT="$W/$p.json" \
      ./sim.cover.test -test.run '^TestWorker$' -test.timeout 30m -test.coverprofile="$W/$p.cov" > "$W/$p.log" 2>&1 || echo "$p worker exit $?" ) &
done
wait
head -1 "$W/C01.cov" > "$W/all.cov"
for f in "$W"/C*.cov; do tail -n +2 "$f" >> "$W/all.cov"; done
[ -n "${KEEP_PROFILE:-}" ] && cp "$W/all.cov" "$KEEP_PROFILE"
python3 - "$W/all.cov" > /verif/tools/coverage.txt <<'PY'
import sys, collections
cov = {}
for line in open(sys.argv[1]):
    if line.startswith("mode:"): continue
    loc, n, c = line.rsplit(" ", 2)
    cov[loc] = (int(n), max(int(c), cov.get(loc, (0, 0))[1]))
per = collections.defaultdict(lambda: [0, 0])
for loc, (n, c) in cov.items():
    f = loc.split(":")[0]
    if "/pb/" in f or "_test" in f or "/mock" in f or "/testing/" in f: continue
    per[f][0] += n
    per[f][1] += n if c > 0 else 0
pk = collections.defaultdict(lambda: [0, 0])
for f, (n, c) in per.items():
    pk[f.rsplit("/", 1)[0]][0] += n; pk[f.rsplit("/", 1)[0]][1] += c
print("statement coverage of attestantio/dirk packages by the simulated runs (union over all 20 properties)")
for p in sorted(pk):
    n, c = pk[p]
    print("%6.1f%%  %5d/%-5d %s" % (100.0 * c / max(n, 1), c, n, p.replace("github.com/attestantio/dirk/", "")))
print()
print("files below 60%:")
for f in sorted(per):
    n, c = per[f]
    if n >= 10 and c < 0.6 * n:
        print("%6.1f%%  %4d/%-4d %s" % (100.0 * c / n, c, n, f.replace("github.com/attestantio/dirk/", "")))
PY
[ -n "${KEEP:-}" ] && cp "$W/all.cov" /dev/shm/verif-all.cov
cat /verif/tools/coverage.txt
