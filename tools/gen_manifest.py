#!/usr/bin/env python3
"""Regenerate /verif/MANIFEST.json from bin/plans.py and the per-property texts below."""
import json, os, subprocess, sys
VERIF = os.path.dirname(os.path.dirname(os.path.abspath(__file__)))
sys.path.insert(0, os.path.join(VERIF, "bin"))
from plans import PLANS
from manifest_texts import TEXTS, NOT_APPLICABLE

NATIVE_NOTE = (" The layers of this check that need no synctest bubble (real goroutines, real sockets, real processes) are hosted twice: by the simulator built with go1.26.8 and "
               "by the same simulator built with the repository's own toolchain (the default go, bin/build_sim.sh native), so that what depends on the toolchain - crypto/tls, net, the runtime - is judged as shipped.")
DAEMON_NOTE = (" One layer (mode=daemon) drives the dirk binary itself, built from the tree under test and started as a daemon process on a generated base directory "
               "(configuration file, certificates, wallets in a filesystem store), over real gRPC/TLS: what main.go makes of the configuration is part of what is judged; the process is killed at "
               "storage points or between requests, stopped and started again where the layer calls for it.")
REALNET_NOTE = (" One layer (mode=realnet) connects 2-5 real instances through Dirk's own sender (services/sender/grpc) and their real gRPC edges instead of the simulated transport; "
                "it is unscheduled, and its only faults are single failing calls of a receiving instance's process service.")
props = [json.loads(l)["id"] for l in open(os.path.join(VERIF, "properties.jsonl"))]
hooks = subprocess.run(["git", "-C", "/repo", "log", "--format=%H %s", "c5f96c0..HEAD"], capture_output=True, text=True).stdout.strip().splitlines()
hook_commits = [h.split()[0] for h in hooks if not h.split(" ", 1)[1].startswith("fix:")]
checks = []
for p in props:
    if p not in PLANS or p not in TEXTS:
        continue
    t = TEXTS[p]
    checks.append({
        "property_id": p,
        "quick_cmd": "bin/check %s quick" % p,
        "thorough_cmd": "bin/check %s thorough" % p,
        "evidence_file": "/verif/evidence/%s.json" % p,
        "replay_cmd_template": "bin/check %s quick --replay {path}" % p,
        "engine": "dirk-dsim",
        "level_claimed": {"category": PLANS[p]["level"], "text": t["level_text"], "design_ref": t.get("design_ref", "DESIGN.md section 7, " + p)},
        "level_note": t["level_note"] + (NATIVE_NOTE if any("native=1" in l.get("params", "") for l in PLANS[p]["quick"].get("layers", [])) else "")
                      + (DAEMON_NOTE if any("mode=daemon" in l.get("params", "") for l in PLANS[p]["quick"].get("layers", [])) else "")
                      + (REALNET_NOTE if any("mode=realnet" in l.get("params", "") for l in PLANS[p]["quick"].get("layers", [])) else "")
                      + " Every run draws the log level of the services it creates (off, trace ... error).",
        "technique": t["technique"],
    })
claimed = {c["property_id"] for c in checks}
na = [{"property_id": p, "reason": NOT_APPLICABLE.get(p, "check not built yet (work in progress, see DESIGN.md section 14)")} for p in props if p not in claimed]
m = {
    "version": 1,
    "setup_cmd": "bin/setup",
    "hooks": {
        "guard": "verif",
        "enable": "go build tag: the simulator is built with `go1.26.8 test -c -tags verif` (bin/build_sim.sh; a second build of the bubble-free layers uses the default go with the same tag); with the tag off util/verifhook compiles to empty inlinable functions",
        "baseline_off_cmd": "cd /repo && GOFLAGS=-mod=mod GOPROXY=off GOSUMDB=off go test -vet=off -count=1 -timeout 25m ./...",
        "source_commits": hook_commits,
        "add_only": True,
    },
    "engines": [{"name": "dirk-dsim", "path": "/verif/sim", "serves_properties": sorted(claimed),
                 "kind_free_text": "deterministic simulation with fault injection: real dirk services in one process under a seeded one-thread-at-a-time scheduler (testing/synctest quiescence + fake clock, enabledness from TryLock on the real mutexes), simulated DKG transport (and, in one layer, Dirk's own sender between real gRPC edges), crash/restart on directory images, reference-model and porcupine oracles; free-running (unscheduled, workload-seeded) layers for locks without hooks and true-parallelism failures; real gRPC/TLS edge tables; the dirk binary as a daemon process (main.go, configuration file) driven over gRPC/TLS; process-level kill, power-loss and full-disk layers; bubble-free layers also hosted by a build with the repository's own toolchain; bin/check drives 16+ worker processes, minimises and re-replays violations"}],
    "checks": checks,
    "notes": "rules/standard TestRules/PathDisallowed expects a permission error opening a store at '/', so it fails whenever the suite runs as root (also on the pristine commit); it is unrelated to the hooks. Replay files are written under /verif/replays/. See DESIGN.md.",
    "not_applicable": na,
}
json.dump(m, open(os.path.join(VERIF, "MANIFEST.json"), "w"), indent=1)
print("claimed:", sorted(claimed), "unclaimed:", [x["property_id"] for x in na])
