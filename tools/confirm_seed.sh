#!/bin/bash
# Confirm a seeded property-breaking change in a scratch worktree:
#   builds, existing suite passes with the change, demonstration fails with it and passes without it.
# usage: confirm_seed.sh <seed id> <demo dest path relative to repo> <go test args...>
# Results: /tmp/seed/<id>/confirm.json ; on success the change is copied to /verif/seeded/<id>/.
set -u
ID=$1; DEST=$2; shift 2
OUT=/tmp/seed/$ID/out
WT=/tmp/confirm-$ID
export GOFLAGS=-mod=mod GOPROXY=off GOSUMDB=off
cd /repo && git worktree add -q --detach "$WT" HEAD || exit 2
cd "$WT"
cleanup() { cd /repo; git worktree remove --force "$WT" 2>/dev/null; rm -rf "$WT"; }
trap cleanup EXIT
mkdir -p "$(dirname "$DEST")"
for f in "$OUT"/demo/*_test.go "$OUT"/demo/*.go; do [ -f "$f" ] && cp "$f" "$(dirname "$DEST")/"; done 2>/dev/null
# demo without change
go test -vet=off -count=1 "$@" > /tmp/seed/$ID/demo_without.log 2>&1; WITHOUT=$?
git apply "$OUT/patch.diff" || { echo "patch does not apply"; exit 2; }
go build ./... > /tmp/seed/$ID/build.log 2>&1; BUILD=$?
go vet ./... > /tmp/seed/$ID/vet.log 2>&1; VET=$?
go test -vet=off -count=1 "$@" > /tmp/seed/$ID/demo_with.log 2>&1; WITH=$?
# the existing suite, without the demo files
for f in "$OUT"/demo/*_test.go "$OUT"/demo/*.go; do [ -f "$f" ] && rm -f "$(dirname "$DEST")/$(basename "$f")"; done 2>/dev/null
go test -vet=off -count=1 -timeout 25m ./... > /tmp/seed/$ID/suite_with.log 2>&1
FAILS=$(grep -E "^--- FAIL|^FAIL" /tmp/seed/$ID/suite_with.log | grep -v "TestRules\b\|TestRules (\|rules/standard\|^FAIL$" | head -5)
SUITE=0; [ -n "$FAILS" ] && SUITE=1
python3 - <<PY
import json
json.dump({"id":"$ID","build_ok":$BUILD==0,"vet_ok":$VET==0,"demo_passes_without_change":$WITHOUT==0,"demo_fails_with_change":$WITH!=0,
 "suite_passes_with_change":$SUITE==0,"suite_note":"rules/standard TestRules/PathDisallowed fails as root on the pristine tree too and is ignored","unexpected_failures":"""$FAILS""",
 "demo_cmd":"go test -vet=off -count=1 $*"}, open("/tmp/seed/$ID/confirm.json","w"), indent=1)
PY
cat /tmp/seed/$ID/confirm.json
if [ $BUILD -eq 0 ] && [ $WITHOUT -eq 0 ] && [ $WITH -ne 0 ] && [ $SUITE -eq 0 ]; then
  mkdir -p /verif/seeded/$ID && cp "$OUT/patch.diff" /verif/seeded/$ID/ && cp -r "$OUT/demo" /verif/seeded/$ID/ && cp /tmp/seed/$ID/confirm.json /verif/seeded/$ID/confirm.json && cp "$OUT/meta.json" /verif/seeded/$ID/agent_meta.json
  echo "CONFIRMED $ID"
else
  echo "NOT CONFIRMED $ID"
fi
