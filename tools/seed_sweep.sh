#!/bin/bash
# Re-run every confirmed seeded change against the check of the property it was written for
# (quick tier, scratch worktrees; /repo is never modified).  Prints one line per seed.
cd "$(dirname "$0")/.."
for d in seeded/*/; do
  id=$(basename "$d")
  prop=$(python3 -c "import json;print(json.load(open('$d/meta.json')).get('property','${id:0:3}'))" 2>/dev/null || echo "${id:0:3}")
  tools/seed_eval.py "$id" "$prop" "${1:-quick}"
done
