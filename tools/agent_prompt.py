#!/usr/bin/env python3
"""Print the prompt handed to an independent sub-agent that seeds a property-breaking change.
Usage: agent_prompt.py <property id> <scratch id> [hint]   (only the property's own text is included)"""
import json, sys
pid, sid = sys.argv[1], sys.argv[2]
hint = sys.argv[3] if len(sys.argv) > 3 else ""
p = next(json.loads(l) for l in open('/verif/properties.jsonl') if json.loads(l)['id'] == pid)
print(f"""You are helping test a verification effort for the Go project attestantio/dirk (an Ethereum 2 remote signer). You have your own scratch git worktree of the repository at /tmp/seed/{sid}/wt (work ONLY there and in /tmp/seed/{sid}/out; do not read or touch /repo, /verif or any other directory under /tmp/seed). The sandbox is offline; for every go command use:
  export GOFLAGS=-mod=mod GOPROXY=off GOSUMDB=off
and the default `go` toolchain.

Here is a semantic property of dirk that holds (or is meant to hold) on the current tree:

TITLE: {p['title']}
STATEMENT: {p['statement']}
QUANTIFIED OVER: {p['quantifier']['text']}
CODE ANCHORS: {', '.join(p['anchors']['files'])}

Your task: write ONE realistic change to dirk's non-test source (the kind of regression a refactor, optimisation or careless bug-fix could introduce) that BREAKS this property, while (a) the whole repository still compiles (`go build ./...` and `go vet ./...` clean for the packages you touched) and (b) the existing test suite still passes (`go test -vet=off -count=1 ./...` in the worktree; at minimum run the packages you touched and those that import them, then the whole suite once at the end). The change must be SUBTLE: it must need something specific to manifest — a particular interleaving of concurrent requests, a crash or fault at a particular point, a multi-step sequence of operations, an unusual input or configuration, or two cooperating edits that each look harmless alone — rather than something any ordinary use would expose at once. {hint}
Do not edit, delete or skip existing tests. Do not touch files under util/verifhook or lines that call verifhook.* (they are inert instrumentation). Keep the diff small (typically < 40 changed lines).

Then write a DEMONSTRATION: a new Go test file (or small program) placed inside the worktree that FAILS with your change applied and PASSES on the unmodified tree, showing the property broken at the level the statement is about (released signatures, stored state after restart, request completion, etc.). Verify both directions yourself by saving your change with `git diff > /tmp/seed/{sid}/out/patch.diff`, reverting with `git checkout -- .`, and re-applying with `git apply`. NEVER use `git stash` (the stash is shared between all worktrees of this repository and other people are using them).

Deliverables, all under /tmp/seed/{sid}/out/:
  - patch.diff : `git diff` of the source change ONLY (not the demonstration), applicable with `git apply` at the root of a clean checkout of the same commit.
  - demo/ : the demonstration file(s), with a README line giving the path each file must be copied to inside the repository and the exact `go test` command to run.
  - meta.json : {{"property": "{pid}", "summary": "...what was changed...", "needs": "...what specific interleaving/crash/sequence/input is needed for it to manifest...", "commands_run": ["..."], "suite_passes_with_change": true/false, "demo_fails_with_change": true/false, "demo_passes_without_change": true/false}}
Finish by leaving the worktree CLEAN of your source change (git checkout -- . ; remove the demo file from the worktree too) so only /tmp/seed/{sid}/out holds your results. Report briefly what you changed and why it is hard to notice.""")
