#!/usr/bin/env python3
"""Determinism self-test: for each world-representative property, run the same seeds in several
processes with different GOMAXPROCS (and twice inside each process); the hash of the canonical
event log of every seed must agree everywhere. Exit 2 on any disagreement."""
import json, os, subprocess, sys, tempfile

binary, tier = sys.argv[1], (sys.argv[2] if len(sys.argv) > 2 else "quick")
DEFAULT = "C04,C03,C06,C12,C17" if tier == "quick" else "C01,C02,C03,C04,C05,C06,C07,C08,C09,C12,C13,C14,C15,C16,C17,C18"
props = os.environ.get("VERIF_SELFTEST_PROPS", DEFAULT).split(",")
seeds = int(os.environ.get("VERIF_SELFTEST_SEEDS", "8" if tier == "quick" else "40"))
# C13's seeded double-fault mode depends on Go map iteration order inside OnExecute (which of two planned faults is
# met first); its single-fault matrix does not, and is what the self-test runs.
# C12 runs two generations at the same time in a quarter of its runs; which instance's session mutex a contribution
# meets then depends on the same map iteration order, so those runs are switched off for the self-test.
PARAMS = {"C13": "mode=matrix,mw=0,mW=1", "C16": "mode=matrix,mw=0,mW=1", "C12": "noconc=1"}
procs_list = [1, 4, 16] if tier != "quick" else [1, 16]
base = "/dev/shm" if os.path.isdir("/dev/shm") else tempfile.gettempdir()
work = tempfile.mkdtemp(prefix="verif-selftest-", dir=os.environ.get("VERIF_SCRATCH", base))
bad = 0
try:
    for prop in props:
        bad_before = bad
        jobs = []
        for gp in procs_list:
            for rep in range(2 if tier != "quick" else 1):
                out = os.path.join(work, "%s-%d-%d.json" % (prop, gp, rep))
                env = dict(os.environ, VERIF_PROP=prop, VERIF_TIER="quick", VERIF_MODE="selftest", VERIF_SEED_BASE="7700000",
                           VERIF_RUNS=str(seeds), VERIF_OUT=out, GOMAXPROCS=str(gp), VERIF_PARAMS=PARAMS.get(prop, ""))
                p = subprocess.Popen([binary, "-test.run", "^TestWorker$", "-test.timeout", "1h"], env=env,
                                     stdout=subprocess.PIPE, stderr=subprocess.STDOUT, text=True)
                jobs.append((gp, rep, out, p))
        ref = None
        for gp, rep, out, p in jobs:
            txt, _ = p.communicate()
            if p.returncode != 0 or not os.path.exists(out):
                print("selftest worker failed (%s, GOMAXPROCS=%d):\n%s" % (prop, gp, txt[-3000:]))
                bad += 1
                continue
            d = json.load(open(out))
            if d.get("error"):
                print("selftest %s GOMAXPROCS=%d: %s\n%s" % (prop, gp, d["error"], txt[-2000:]))
                bad += 1
            if ref is None:
                ref = d["hashes"]
            elif ref != d["hashes"]:
                diff = [s for s in ref if ref[s] != d["hashes"].get(s)]
                print("selftest %s: event-log hashes differ between processes for seeds %s" % (prop, diff[:10]))
                bad += 1
        print("selftest %s: %d seeds x %d processes: %s" % (prop, seeds, len(jobs), "FAILED" if bad > bad_before else "identical"))
finally:
    import shutil
    shutil.rmtree(work, ignore_errors=True)
sys.exit(2 if bad else 0)
