#!/bin/bash
# Build the simulator test binary against a given checkout of attestantio/dirk (default /repo).
# usage: build_sim.sh <out-binary> [repo-path]
set -euo pipefail
OUT=$1
REPO=${2:-/repo}
export GOFLAGS=-mod=mod GOPROXY=off GOSUMDB=off GOTOOLCHAIN=local
SIM=$(cd "$(dirname "$0")/../sim" && pwd)
GO=go1.26.8
command -v $GO >/dev/null 2>&1 || GO=/opt/veriftools/go1.26.8/bin/go
cd "$SIM"
cp "$REPO/go.sum" "$SIM/go.sum"
if [ "$REPO" = "/repo" ]; then
  exec $GO test -c -tags verif -o "$OUT" .
fi
MF=$(mktemp -d "${VERIF_SCRATCH:-/dev/shm}/simmod.XXXXXX")
trap 'rm -rf "$MF"' EXIT
sed "s#=> /repo#=> $REPO#" go.mod > "$MF/go.mod"
cp go.sum "$MF/go.sum"
$GO test -modfile="$MF/go.mod" -c -tags verif -o "$OUT" .
