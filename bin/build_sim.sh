#!/bin/bash
# Build the simulator test binary against a given checkout of attestantio/dirk (default /repo).
# usage: build_sim.sh <out-binary> [repo-path] [native]
#   native: build with the default toolchain (the one the repository itself is built and tested with) instead of
#   go1.26.8; that build has no testing/synctest and hosts only the layers made of real goroutines, sockets and
#   processes (sim/bubble_off.go).
set -euo pipefail
OUT=$1
REPO=${2:-/repo}
NATIVE=${3:-}
export GOFLAGS=-mod=mod GOPROXY=off GOSUMDB=off GOTOOLCHAIN=local
SIM=$(cd "$(dirname "$0")/../sim" && pwd)
GO=go1.26.8
command -v $GO >/dev/null 2>&1 || GO=/opt/veriftools/go1.26.8/bin/go
cd "$SIM"
cp "$REPO/go.sum" "$SIM/go.sum"
if [ "$REPO" = "/repo" ] && [ -z "$NATIVE" ]; then
  exec $GO test -c -tags verif -o "$OUT" .
fi
MF=$(mktemp -d "${VERIF_SCRATCH:-/dev/shm}/simmod.XXXXXX")
trap 'rm -rf "$MF"' EXIT
sed "s#=> /repo#=> $REPO#" go.mod > "$MF/go.mod"
cp go.sum "$MF/go.sum"
if [ -n "$NATIVE" ]; then
  GO=go
  # the module's language version becomes the repository's own
  GOLINE=$(grep -m1 '^go ' "$REPO/go.mod")
  sed -i "s#^go 1.26.8#$GOLINE#" "$MF/go.mod"
fi
$GO test -modfile="$MF/go.mod" -c -tags verif -o "$OUT" .
