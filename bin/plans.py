"""Per-property plans of bin/check: tiers, budgets, evidence wording."""

REAL_W1 = ("REAL: gRPC signer handlers, signer/standard, ruler/golang, locker/syncmap, rules/standard on badger (tmpfs), "
           "checker/static, fetcher/mem, unlocker/local, nd wallets + keystorev4 (test cost knob 2^10), herumi BLS. "
           "WRAPPED (pass-through with yield/fault points): rules.Service, locker.Service, fetcher.Service (+account Sign observer), "
           "checker.Service, unlocker.Service. STUB: gRPC/TLS transport (client name injected into the context as the interceptor does), "
           "metrics/tracing (no-op), wall clock (synctest fake clock).")

ASSUME_SCHED = [
    "code between two yield points (lock acquisition, store access, rules entry/exit, Sign) runs atomically; races inside badger or between statements with no hook in between are invisible",
    "harness built with go1.26.8 (testing/synctest); dirk's own toolchain differs",
    "sampling, not proof: a clean batch is evidence",
]


def tiers(quick_runs, quick_budget, thorough_runs, thorough_budget, **kw):
    q = dict(runs=quick_runs, budget_s=quick_budget)
    t = dict(runs=thorough_runs, budget_s=thorough_budget)
    q.update(kw.get("quick", {}))
    t.update(kw.get("thorough", {}))
    return q, t


PLANS = {}


def native(layers):
    """The same layers hosted by the simulator built with the repository's own toolchain (bin/build_sim.sh native):
    only for layers that need no synctest bubble (real goroutines, sockets, processes)."""
    return [dict(l, params=(l.get("params", "") + ",native=1").lstrip(",")) for l in layers]


def plan(pid, level, rule, quick, thorough, **kw):
    PLANS[pid] = dict(level=level, rule=rule, quick=quick, thorough=thorough, real_vs_stub=kw.pop("real_vs_stub", REAL_W1),
                      assumptions=kw.pop("assumptions", ASSUME_SCHED), **kw)


q, t = tiers(150, 60, 8000, 1200)
plan("C04", "exploration",
     "one case = one seeded run: 2-8 concurrent single/batch attestation and proposal requests over 1-4 shared keys under a seeded "
     "one-thread-at-a-time schedule; distinct = distinct (workload, schedule projection onto task/yield-kind/key) signature; "
     "non-trivial = at least two requests were in flight at the same time. Oracle: porcupine linearizability against the watermark "
     "state machine incl. final export, plus the released-signature ledger.",
     q, t)
q, t = tiers(150, 60, 8000, 1200)
q["layers"] = [dict(runs=150, budget_s=60, params="")] * 15 + [dict(runs=6, budget_s=60, params="mode=free")] + native([dict(runs=6, budget_s=60, params="mode=free")])
t["layers"] = [dict(runs=8000, budget_s=1200, params="")] * 15 + [dict(runs=300, budget_s=1200, params="mode=free")] + native([dict(runs=300, budget_s=1200, params="mode=free")])
q["require_probes"] = t["require_probes"] = ["free_running_runs_completed", "drain_phases"]
plan("C15", "exploration",
     "one case = one seeded run as for C04 (thorough adds sustained-load runs of 16-64 requests); distinct = distinct schedule signature; "
     "non-trivial = at least two requests in flight at once. Oracle: the enabled set (decided by TryLock on the real mutexes) is never empty "
     "while requests remain, every request returns, and a final drain phase (one request per key plus one naming all keys) completes.",
     q, t)

HIST_RULE = ("one case = one seeded history of 5-60 conflict-seeking {kind} requests (advance / same-{unit} / lower / boundary values incl. >= 2^63; "
             "by name, by key, both; {extra}) over 1-4 keys, processed sequentially or in concurrent phases of 2-5 requests under the seeded scheduler, "
             "with clean restarts and crash restarts (directory image) in between (later incarnations with periodic pruning in half of the histories, their housekeeping goroutine a thread of the schedule); "
             "sequential histories now and then try to start a second instance on the same directory, and (attestations) send a batch carrying an exact-capacity short-domain entry whose panic is the death of the daemon; distinct = distinct history; non-trivial = at least two signatures were released. "
             "Oracle: every released signature is entered in a per-key ledger and compared pairwise with all earlier ones{strict}.")
q, t = tiers(250, 60, 20000, 1200)
q["layers"] = [dict(runs=250, budget_s=60, params="")] * 14 + [dict(runs=25, budget_s=60, params="mode=free")] + native([dict(runs=25, budget_s=60, params="mode=free")]) + native([dict(runs=30, budget_s=60, params="mode=daemon")] * 2)
t["layers"] = [dict(runs=20000, budget_s=1200, params="")] * 14 + [dict(runs=3000, budget_s=1200, params="mode=free")] + native([dict(runs=3000, budget_s=1200, params="mode=free")]) + native([dict(runs=1500, budget_s=1200, params="mode=daemon")] * 2)
q["require_probes"] = t["require_probes"] = ["daemon_processes_started", "daemon_requests"]
plan("C01", "exploration", HIST_RULE.format(kind="attestation", unit="target", extra="single and batched, batches repeating a key", strict=" (double vote, surround either way)"), q, t)
q, t = tiers(250, 60, 20000, 1200)
q["layers"] = [dict(runs=250, budget_s=60, params="")] * 14 + native([dict(runs=30, budget_s=60, params="mode=daemon")] * 2)
t["layers"] = [dict(runs=20000, budget_s=1200, params="")] * 14 + native([dict(runs=1500, budget_s=1200, params="mode=daemon")] * 2)
q["require_probes"] = t["require_probes"] = ["daemon_processes_started", "daemon_requests"]
plan("C02", "exploration", HIST_RULE.format(kind="proposal", unit="slot", extra="proposer and foreign domains", strict=" (same slot/different block; in sequential histories slots must strictly increase in release order)"), q, t)

q, t = tiers(120, 60, 6000, 1200)
def c03_layers(runs, kill_runs, power_runs, full_runs, budget, daemon_runs=30):
    return ([dict(runs=runs, budget_s=budget, params="")] * 11 + [dict(runs=kill_runs, budget_s=budget, params="mode=kill")] + native([dict(runs=kill_runs, budget_s=budget, params="mode=kill")])
            + [dict(runs=power_runs, budget_s=budget, params="mode=power")] + native([dict(runs=power_runs, budget_s=budget, params="mode=power")]) + [dict(runs=full_runs, budget_s=budget, params="mode=diskfull")]
            + native([dict(runs=full_runs, budget_s=budget, params="mode=diskfull")]) + native([dict(runs=daemon_runs, budget_s=budget, params="mode=daemon")] * 2))
q["layers"] = c03_layers(120, 64, 12, 24, 60, 30)
t["layers"] = c03_layers(6000, 3200, 600, 1200, 1200, 1500)
q["require_probes"] = ["crash_exact", "probe_crash_between_approval_and_signing", "sign_seam_checks", "ack_durability_checks", "crash_real_process_kill", "crash_power_loss_images", "released_lists_checked_pairwise", "daemon_processes_started", "crash_real_daemon_killed_between_requests"]
t["require_probes"] = q["require_probes"] + ["crash_torn", "crash_after-write", "probe_crash_before_store", "probe_crash_between_store_and_approval", "sign_seam_image_checks"]
plan("C03", "exploration",
     "one case = one seeded run: 1-4 phases of 1-5 concurrent conflict-seeking attestation/proposal requests (single and batched) under the seeded scheduler, "
     "with 1-3 crashes injected at drawn yield points (before a store write, torn inside it, right after it, between approval and Sign, waiting for a lock) "
     "and restart on the surviving directory image (periodic pruning drawn; goroutines the new incarnation starts for itself are adopted as threads of the schedule), plus clean restarts; distinct = distinct (history, schedule, crash placement) signature; non-trivial = "
     "at least one crash happened or one signature was released. Oracles: ledger across incarnations (no conflicting pair ever released), export after every "
     "restart covers every released signature, at the instant Sign is invoked the live store and (sampled) a fresh process opening the directory already "
     "cover the duty, the directory as copied at the instant a storage call returns already holds what was acknowledged; layers 2 and 3 add real SIGKILLs at every storage point (up to three incarnations in a row on one directory, periodic pruning drawn) and power-loss images from a syscall trace; "
     "layer 4 lets the store run out of disk space (tmpfs with 0-28 KB left) under a workload of 120-360 requests.",
     q, t)

BATCH_RULE = ("one case = one seeded run of 1-3 rounds, each a request of drawn kind and size (1-40 mostly, up to {big} entries over distinct keys of a 520-account wallet) "
              "with GOMAXPROCS drawn from {{1,2,3,4,5,7,8,16,33,64,128}}; batches of <= 48 entries run under the seeded scheduler so that scatter workers are released in drawn order; "
              "distinct = distinct (kind, size, GOMAXPROCS, values) tuple; non-trivial = a batch larger than GOMAXPROCS (work is split over several workers) or more than one round. ")
def batch_layers(runs, budget, scatter_runs):
    main = dict(runs=runs, budget_s=budget, params="")
    sc = dict(runs=scatter_runs, budget_s=budget, params="mode=scatter")
    return [main] * 15 + [sc]
def c08_layers(runs, budget, free_runs):
    return [dict(runs=runs, budget_s=budget, params="")] * 15 + [dict(runs=free_runs, budget_s=budget, params="mode=free")] + native([dict(runs=free_runs, budget_s=budget, params="mode=free")])
q, t = tiers(120, 60, 5000, 1200)
q["layers"] = c08_layers(120, 60, 25)
t["layers"] = c08_layers(5000, 1200, 3000)
plan("C08", "exploration",
     BATCH_RULE.format(big="160 (quick) / 512 (thorough)") + "Kinds: attestation batch, multisign, single attestation/proposal/generic with random field values (full uint64 slot/index). "
     "Oracle: exactly one response per request; every returned signature BLS-verifies under the public key of the account addressed at that position over a signing root "
     "recomputed by the harness's own SSZ merkleiser (not fastssz); the same monitor runs in every other W1/W2 check.",
     q, t)
q, t = tiers(120, 60, 5000, 1200)
q["layers"] = batch_layers(120, 60, 64) + native([dict(runs=40, budget_s=60, params="mode=wire")])
t["layers"] = batch_layers(5000, 1200, 64) + native([dict(runs=2000, budget_s=1200, params="mode=wire")])
q["require_probes"] = ["twin_comparisons", "scatter_pairs_checked", "probe_batch_larger_than_gomaxprocs", "wire_batches"]
t["require_probes"] = q["require_probes"]
plan("C09", "exploration",
     BATCH_RULE.format(big="160 (quick) / 512 (thorough)") + "Twin instances: the batch goes to A, the same entries one at a time to B (same history); verdict vectors must agree position by position "
     "and agree with the reference model (advancing requests with epochs < 2^63 must be signed, incl. equal consecutive sources, genesis 0/0, values near 2^63-1); the rules "
     "wrapper counts evaluations per batch index (exactly once). One worker enumerates util.Scatter(n) for every n in [1,600] x GOMAXPROCS in [1,64] (complete table) and checks the "
     "(offset, entries) pairs partition [0,n).",
     q, t)

def c06_layers(rand_runs, budget, matrix_workers=4, matrix_runs=400):
    ls = [dict(runs=matrix_runs, budget_s=budget, params="mode=matrix,mw=%d,mW=%d" % (k, matrix_workers)) for k in range(matrix_workers)]
    ls += [dict(runs=rand_runs, budget_s=budget, params="")] * (16 - matrix_workers)
    return ls
q, t = tiers(150, 60, 8000, 1200)
q["layers"] = c06_layers(150, 60)
t["layers"] = c06_layers(8000, 1200)
q["require_probes"] = ["matrix_cases", "probe_requests_meeting_a_fault", "fault_store-closed-under-load"]
t["require_probes"] = q["require_probes"]
q["require_complete"] = t["require_complete"] = [("matrix_cases", "matrix_total")]
plan("C06", "fault_enumeration",
     "(a) single-fault matrix, enumerated completely in both tiers: 35 fault sites (account lookup, permission check, IsUnlocked error, unlock error, no passphrase opens it, "
     "really sealed account, account unlocked by the operator through the account manager and locked again on an instance configured with no account passphrases, rules UNKNOWN/FAILED/DENIED, short and empty result list, the ruler itself answering with no verdicts, store read error, store write error, wrong-length record, undecodable record, store closed, "
     "Sign error, 31- and 33-byte domain, 31-byte data root, an attestation request without target, source, data or id or absent from the list) x request kind {attest, attest-batch, propose, generic, multisign} x batch size {1,2,3,5,17} x position; "
     "(b) seeded multi-fault sequences: 2-6 concurrent requests with store/rules/Sign faults injected at yield points at a drawn rate, pre-drawn lookup/permission/unlock faults, "
     "and the store closed under load (the directory is reopened afterwards: whatever was signed must have its record). distinct = distinct matrix case or distinct faulty schedule; non-trivial = a fault actually fired on a request's path. "
     "Oracle: signature iff SUCCEEDED at every position (handler level); every position whose path met the fault carries no signature; no panic; ledger and signature validity still hold.",
     q, t, crash_is_violation=True)

q, t = tiers(200, 60, 10000, 900)
q["layers"] = [dict(runs=200, budget_s=60, params="")] * 15 + [dict(runs=48, budget_s=60, params="mode=edge")] + native([dict(runs=48, budget_s=60, params="mode=edge")]) + native([dict(runs=12, budget_s=60, params="mode=daemon")])
t["layers"] = [dict(runs=10000, budget_s=900, params="")] * 15 + [dict(runs=48, budget_s=900, params="mode=edge")] + native([dict(runs=48, budget_s=900, params="mode=edge")]) + native([dict(runs=200, budget_s=900, params="mode=daemon")])
q["require_complete"] = t["require_complete"] = [("edge_cases", "edge_total")]
q["require_probes"] = t["require_probes"] = ["edge_exit_signed_for_listed_source", "edge_exit_refused_for_unlisted_source", "daemon_exit_signed_for_listed_source", "daemon_exit_refused"]
plan("C05", "exploration",
     "one case = one (endpoint, domain class, source listed?, admin list size) combination; a seeded run draws an administrator list (empty / one / many, incl. look-alike strings), "
     "4-15 requests over {generic, multisign, attestation, attestation batch, proposal} with a domain per position from {attester, proposer, voluntary-exit, other spec types, "
     "near misses of the slashable types, random prefix, an (object root, slashable domain) pair cut into data and domain at another offset} x random 28-byte suffix and a source address (absent / listed / unlisted / look-alike); a quarter of the runs make the rules "
     "answer UNKNOWN/FAILED for some keys. distinct = distinct combination actually exercised; non-trivial = all. Oracle: no signature under attester/proposer via generic endpoints (nor one that verifies under them when the 64 signed bytes are read as root then domain), "
     "none under any other type via the attestation/proposal endpoints (and the slashing database is unchanged by such a refusal), exit only for a listed source. "
     "A sixteenth worker enumerates a 48-case table over real gRPC/TLS: administrator list {none, 127.0.0.2, 127.0.0.1+127.0.0.3} x the loopback address the client binds its connection to x "
     "forwarding headers naming a listed address or none x {Sign, Multisign}: the source is what the TCP connection says.",
     q, t)

REAL_W8 = (" One layer (mode=realnet) replaces nothing: 2-5 instances named like the repository's signer certificates talk through Dirk's own sender (services/sender/grpc, TLS with the "
           "instance's certificate) into each other's real gRPC edge; names are mapped to the loopback address by a resolver registered in the worker process; faults there are single failing calls of "
           "the receiving instance's process service, and contribution replies altered on their way back (share replaced, commitments altered, vector shorter / longer / empty, with or without a share consistent with it).")
REAL_W2 = ("REAL per instance: process/standard (DKG), receiver gRPC handlers, accountmanager/lister/signer handlers and services, ruler, locker, rules on badger, checker/static, fetcher/mem, "
           "unlocker/local, peers/static (Peer, All), distributed + nd wallets on a scratch store, keystorev4 (cost 2^10), herumi BLS. REPLACED: services/sender/grpc by the simulated "
           "transport (same protobuf messages through Marshal/Unmarshal into the destination's real receiver handler under the authenticated name the TLS interceptor would derive); "
           "peers.Suitable re-implemented (the real one iterates a Go map; order drawn from the choice source). STUB: gRPC/TLS, metrics/tracing, wall clock (synctest fake clock).")
q, t = tiers(60, 90, 2500, 1500)
q["layers"] = [dict(runs=60, budget_s=90, params="")] * 15 + native([dict(runs=60, budget_s=90, params="mode=realnet")])
t["layers"] = [dict(runs=2500, budget_s=1500, params="")] * 15 + native([dict(runs=2500, budget_s=1500, params="mode=realnet")])
q["require_probes"] = ["successful_generations", "refused_out_of_range", "threshold_subsets_checked", "realnet_generations"]
t["require_probes"] = q["require_probes"]
plan("C12", "exploration",
     "one case = one seeded generation in a cluster of n(+0..2 spare) real instances: (n,t) walks the complete table 1<=n<=7, 0<=t<=n+1 (42 pairs, every t outside n/2<t<=n must be refused "
     "before any message is sent); participant id sets {1..n, large random, near 2^64, sparse}; participant order, initiating instance (incl. a non-participant) and the order in which "
     "the parallel commit replies are released are drawn; a quarter of the valid runs tamper one commit reply (public key / confirmation signature / empty fields), and half of those retry under the same name through an instance that holds nothing (a retry that succeeds is checked like any success). distinct = distinct "
     "(n, t, id-set class, initiator role, tamper) tuple; non-trivial = all. Oracle on success: every participant's wallet store holds the account with identical composite key (= the one "
     "returned), verification vector, threshold and participant map; share key = vector evaluated at the participant's id; every t-subset of partial signatures obtained through the real "
     "signer recovers a signature valid under the composite key and no (t-1)-subset does; listed and signing on every participant immediately and after a restart.",
     q, t, real_vs_stub=REAL_W2 + REAL_W8)

def c13_layers(matrix_runs, rand_runs, budget, mw=8):
    ls = [dict(runs=matrix_runs, budget_s=budget, params="mode=matrix,mw=%d,mW=%d" % (k, mw)) for k in range(mw)]
    ls += [dict(runs=rand_runs, budget_s=budget, params="")] * (16 - mw)
    ls += native([dict(runs=rand_runs, budget_s=budget, params="mode=realnet")])
    return ls
q, t = tiers(60, 120, 1500, 1500)
q["layers"] = c13_layers(125, 40, 120)
t["layers"] = c13_layers(260, 1500, 1500)
q["require_complete"] = t["require_complete"] = [("matrix_cases", "matrix_total")]
q["require_probes"] = t["require_probes"] = ["failed_generations", "recovery_generations", "realnet_generations"]
plan("C13", "fault_enumeration",
     "(a) single-fault matrix, enumerated completely: (n,t) in {(2,2),(3,2),(3,3),(4,3),(5,3)} (thorough adds (5,4),(7,4)) x every message of the prepare/execute/contribute sequence, "
     "addressed by identity (sender, receiver, kind, account, occurrence) x fault kind {lost, error reply, lost reply, duplicate delivery; for contributions, in request and in reply "
     "direction: share replaced, share computed for another id, last / first commitment altered, vector too short / too long (inconsistent), vector too short / too long with a share "
     "consistent with it (a dishonest participant's own polynomial), empty vector; and each of these alterations arriving as a second contribution after the genuine one was accepted}; (b) seeded double faults on drawn id sets. distinct = distinct case; non-trivial = all. "
     "Oracle: the client gets an error, no instance holds the account in its wallet store or its cache, no handler call panics, and a fault-free generation under another name then "
     "succeeds with a fully consistent key (C12's oracle); duplicate delivery may alternatively end in a fully consistent success.",
     q, t, real_vs_stub=REAL_W2 + REAL_W8, crash_is_violation=True)

def all_matrix_layers(runs, budget, mw=16, extra=""):
    return [dict(runs=runs, budget_s=budget, params="mode=matrix,mw=%d,mW=%d%s" % (k, mw, extra)) for k in range(mw)]
q, t = tiers(30, 90, 600, 1200)
q["layers"] = all_matrix_layers(62, 90, mw=14) + [dict(runs=75, budget_s=90, params="mode=tls"), dict(runs=8, budget_s=90, params="mode=tlsconc")] + native([dict(runs=75, budget_s=90, params="mode=tls"), dict(runs=8, budget_s=90, params="mode=tlsconc")])
t["layers"] = all_matrix_layers(600, 1200, mw=14) + [dict(runs=75, budget_s=1200, params="mode=tls"), dict(runs=300, budget_s=1200, params="mode=tlsconc")] + native([dict(runs=75, budget_s=1200, params="mode=tls"), dict(runs=300, budget_s=1200, params="mode=tlsconc")])
q["layers"] += native([dict(runs=10, budget_s=90, params="mode=realnet")])
t["layers"] += native([dict(runs=300, budget_s=1200, params="mode=realnet")])
q["require_complete"] = t["require_complete"] = [("matrix_cases", "matrix_total"), ("edge_cases", "edge_total")]
q["require_probes"] = t["require_probes"] = ["share_deliveries_checked_over_the_real_sender", "realnet_concurrent_generations_succeeded", "legit_continuations_ok", "share_ownership_checks", "peer_contribution_replies_checked", "ownership_generations", "edge_genuine_peer_served", "edge_non_peer_calls", "edge_concurrent_non_peer_calls", "concurrent_non_peer_messages"]
plan("C16", "exploration",
     "the table caller identity {a peer, a configured peer that is not a participant of the generation, an ordinary client with all permissions, empty name, unknown name, a peer's name in upper case, a peer's name with a suffix} x message "
     "{prepare, execute, contribute (with a contribution that would verify), commit, abort} x session state at the receiving instance {none, prepared, executed, committed, aborted, "
     "expired (fake clock)} is enumerated completely (360 cases, and 270 more in which a genuine peer earlier opened a generation for another account whose participant list names the non-peer caller; callers also: a peer name as host of a longer domain name, with a trailing dot, a prefix of it, with a port, with a leading space) through the real receiver handlers of a 4-instance cluster (3 participants), a 70-case credential x message table goes over real gRPC/TLS (TLS edge; credentials include certificates the configured authority issued to a client with a peer's name among their alternative names); the remaining runs are seeded fault-free generations with "
     "drawn (n,t) and id sets and (a third) phases of 2-4 messages of different callers in flight at one instance at once under the seeded scheduler. distinct = distinct table case or (n,t,id-class); non-trivial = all. Oracle: a non-peer gets an error and no share, and the legitimate protocol run "
     "continues from that state to a committed account on every participant; every contribution the transport carries (request and reply) has share = originator's vector evaluated "
     "at the recipient's id and at no other participant's id. One layer (mode=realnet) runs two waves of 2-4 generations at the same time over Dirk's own sender (services/sender/grpc, its connection pools) "
     "between real gRPC/TLS edges: every share an instance hands to its sender is remembered with the participant it was computed for and looked up where it arrives.",
     q, t, real_vs_stub=REAL_W2 + REAL_W8)
q, t = tiers(200, 60, 10000, 1200)
q["layers"] = [dict(runs=200, budget_s=60, params="")] * 15 + [dict(runs=12, budget_s=60, params="mode=free")] + native([dict(runs=12, budget_s=60, params="mode=free")]) + native([dict(runs=12, budget_s=60, params="mode=daemon")])
t["layers"] = [dict(runs=10000, budget_s=1200, params="")] * 15 + [dict(runs=1500, budget_s=1200, params="mode=free")] + native([dict(runs=1500, budget_s=1200, params="mode=free")]) + native([dict(runs=400, budget_s=1200, params="mode=daemon")])
q["require_probes"] = t["require_probes"] = ["life_commit_ok", "life_abort", "life_clock_advances", "life_execute_ok", "free_simultaneous_prepares", "daemon_generations_expired_as_configured"]
plan("C17", "exploration",
     "one case = one seeded sequence of 8-31 events {prepare, execute, commit, abort on a drawn instance for one of 1-3 account names; clock advance: a third of the timeout / exactly "
     "onto, 1 ns short of, 1 ns past the expiry of a session / well past it} on a 3-instance cluster with generation timeout drawn from {1 ms, 1 s, 70 s, 10 min}, biased towards the "
     "legitimate order so that committed states are reached; distinct = distinct event sequence with outcomes; non-trivial = all. Oracle: a reference lifecycle per (instance, account) "
     "fed by observed facts (which contribution exchanges the transport completed), checked in the directions the property states; the instant exactly at the timeout is left undecided.",
     q, t, real_vs_stub=REAL_W2)

q, t = tiers(60, 90, 3000, 1500)
q["require_probes"] = t["require_probes"] = ["duty_reached_threshold", "crash_restarts"]
plan("C14", "exploration",
     "one case = one seeded run: a real DKG creates a distributed account over n in [2,5] (thorough: 7) instances with drawn t in (n/2, n] and id set; an adversarial client then sends two "
     "conflicting duties (same target/different data, surround either way, two blocks at one slot) by account name or share key, through single and batch endpoints, routed by a drawn "
     "strategy (complementary halves, t-sized overlapping sets, both to every instance, drawn subsets with repeats), all requests of a phase concurrent under the seeded scheduler; half "
     "the runs crash- or clean-restart instances and then retry both duties everywhere; a decoy account (with or without history) rides in some batches; a quarter of the attestation runs first send one duty in a batch "
     "with an exact-capacity short-domain entry (a panic is the death of that daemon: image restart); a third of the runs finally try both duties through the generic endpoints of every instance "
     "(the duty's root under its slashable domain alone, and in a Multisign beside a harmless entry for the validator, on several workers) and count whatever verifies. distinct = distinct (n,t,conflict,strategy,restarts,schedule); non-trivial = at least one partial "
     "signature was released. Oracle: BLS-valid partial signatures are counted per duty (one per instance): never both >= t; a duty that reaches t recovers a valid composite signature.",
     q, t, real_vs_stub=REAL_W2)

REAL_W5 = ("REAL: services/api/grpc (gRPC server, TLS 1.3 with RequireAndVerifyClientCert, request-id/source-ip/client-info interceptors), all five registered services' handlers and "
           "services behind them on a loopback port; the repository's own test certificates and authority; clients built with crypto/tls. No bubble, no scheduler: calls are sequential. STUB: DKG sender.")
q, t = tiers(50, 120, 50, 300)
q["layers"] = all_matrix_layers(168, 120, mw=14) + [dict(runs=10, budget_s=120, params="mode=conc"), dict(runs=12, budget_s=120, params="mode=resume"), dict(runs=40, budget_s=120, params="mode=portreuse")]
t["layers"] = all_matrix_layers(168, 300, mw=14) + [dict(runs=200, budget_s=300, params="mode=conc"), dict(runs=200, budget_s=300, params="mode=resume"), dict(runs=2000, budget_s=300, params="mode=portreuse")]
q["layers"] = native(q["layers"]) + q["layers"] + native([dict(runs=8, budget_s=120, params="mode=daemon")])
t["layers"] = native(t["layers"]) + t["layers"] + native([dict(runs=120, budget_s=300, params="mode=daemon")])
q["exhaustive"] = t["exhaustive"] = True
q["require_complete"] = t["require_complete"] = [("matrix_cases", "matrix_total")]
q["require_probes"] = t["require_probes"] = ["untrusted_calls", "permitted_calls_served", "concurrent_identity_requests", "resume_attempts_against_other_authority", "portreuse_identity_changes_on_one_source_address", "daemon_credential_calls", "daemon_permitted_calls_served"]
plan("C19", "other",
     "complete table: server configuration {authority configured, no authority configured, authority configured and the server certificate file also carrying a foreign authority's certificate} x every method of the five registered gRPC services (16) x caller credential {plaintext, TLS without "
     "client certificate, self-signed with a permitted name, other authority with a permitted name, authority from the host trust store with a permitted name, certificate chained through a "
     "non-CA certificate of the configured authority, valid unpermitted client, valid client-test01, valid client-test02, valid peer certificate, a valid certificate followed in the chain by a self-made certificate bearing a permitted name (two variants), a self-made certificate with a permitted name followed by a genuine client's public certificate, a self-made certificate that claims to be an authority and bears a permitted name (alone, followed by a genuine client's public certificate, followed by the configured authority's certificate), six certificates really issued by the configured authority (its key is among the repository's test resources) whose subject is one client while their DNS alternative names, organisation fields, e-mail or URI names mention another, or whose subject is empty} (also: a permitted client's name in upper case as subject; a certificate without a subject name followed by a self-made one bearing a permitted name) x target wallet {Wallet 1, Wallet 2} = 2304 cases.",
     q, t, real_vs_stub=REAL_W5,
     explanation="No scheduler and no fault sequence applies to this property; the check is an exhaustive table over a live in-process daemon edge (real gRPC, TLS, interceptors, handlers, services) "
                 "attacked by hostile and legitimate clients. Callers without a certificate from the configured authority must obtain no response message at all and change no state (with no "
                 "authority configured: nobody is served); accepted callers are identified by the subject name of the verified certificate: client-test01 reaches Wallet 1 only, client-test02 "
                 "Wallet 2 only, the unpermitted client and a foreign peer nothing.",
     assumptions=["Go crypto/tls and x509 verification are trusted", "the host trust store is pointed (SSL_CERT_FILE) at a generated foreign authority to cover servers that fall back to system roots"])

q, t = tiers(150, 90, 6000, 1500)
q["layers"] = [dict(runs=150, budget_s=90, params="")] * 7 + native([dict(runs=150, budget_s=90, params="")] * 6) + native([dict(runs=150, budget_s=90, params="mode=daemon")] * 2) + [dict(runs=70, budget_s=90, params="mode=free")] + native([dict(runs=70, budget_s=90, params="mode=free")])
t["layers"] = [dict(runs=6000, budget_s=1500, params="")] * 7 + native([dict(runs=6000, budget_s=1500, params="")] * 6) + native([dict(runs=6000, budget_s=1500, params="mode=daemon")] * 2) + [dict(runs=2000, budget_s=1500, params="mode=free")] + native([dict(runs=2000, budget_s=1500, params="mode=free")])
q["require_probes"] = t["require_probes"] = ["canaries_served", "requests", "free_running_volleys", "daemon_wire_requests"]
plan("C20", "exploration",
     "one case = one generated request: structure-aware generation per RPC of Lister, Signer (5), AccountManager (3), WalletManager (2) and the five key-generation messages (from non-peers and "
     "a peer), byte fields of length {0,1,3,4,31,32,33,47,48,49,96,4096} or absent, domains with a valid type prefix but wrong length, absent sub-messages and identifiers, extreme integers, "
     "batches of 0/1/2/3/17/100/1000 (thorough: 10000) entries incl. nil entries, malformed/unknown/huge names and regexes, from clients {permitted, other permitted, unauthenticated, unknown, "
     "a peer}; each request goes through a protobuf wire round trip and is followed by a canary request of another client. distinct = distinct (method, request) pair; non-trivial = all. "
     "Oracle: every request gets a response or an error within 30 s, no panic on the handler goroutine, the worker process (= the instance) does not die (a panic on a scatter worker "
     "goroutine kills it; the driver then replays the seed written ahead of the run in a fresh process), and the canary is served.",
     q, t, real_vs_stub=REAL_W2 + " W6: no bubble, no scheduler; real goroutines.", crash_is_violation=True,
     assumptions=["an input-space property: the technique contributes process isolation, the liveness canary and write-ahead replay, not schedules", "resource exhaustion is only reported if the process actually dies in this sandbox"])

# Worlds with the DKG services contain one source of nondeterminism the simulator cannot own (OnExecute iterates
# a Go map when it sends its contributions): a replay may need several attempts to take the same branch again.
for _p in ("C12", "C13", "C14", "C16", "C17"):
    PLANS[_p]["replay_attempts"] = 12
# C03's kill and power layers run real child processes: what a SIGKILL leaves behind can depend on timing.
PLANS["C03"]["replay_attempts"] = 6
# Free-running layers (C15 deadlock detector, C19 two-client load, C20 volleys) are seeded in their workload, not in
# their interleaving: a finding is reported only if it shows again within this many repetitions in a fresh process.
PLANS["C01"]["replay_attempts"] = 6
PLANS["C08"]["replay_attempts"] = 6
PLANS["C15"]["replay_attempts"] = 6
PLANS["C19"]["replay_attempts"] = 40
PLANS["C20"]["replay_attempts"] = 6

PERM_RULE = ("a seeded run draws a permission table (1-4 clients x 1-4 ordered entries; wallet patterns: literal, .*, prefix.*, class, alternation in both orders, own anchors, other case, group, optional "
             "char; account patterns likewise or empty; 1-3 operation items from All/None/op/~op in drawn order and case) over a population with near-miss names (Wallet1, Wallet10, Wallet2, xWallet2, "
             "wallet3; acc1, acc10, Acc2, xacc1, val-1) on a real single-instance stack incl. process, account and wallet managers; ")
q, t = tiers(120, 60, 6000, 900)
q["layers"] = [dict(runs=120, budget_s=60, params="")] * 14 + native([dict(runs=40, budget_s=60, params="mode=daemon")] * 2)
t["layers"] = [dict(runs=6000, budget_s=900, params="")] * 14 + native([dict(runs=2000, budget_s=900, params="mode=daemon")] * 2)
q["require_probes"] = t["require_probes"] = ["daemon_permission_decisions", "daemon_operations_served"]
plan("C07", "exploration",
     PERM_RULE + "then 10-39 operations {generic sign, multisign, attest, attest batch, propose, list, lock/unlock account, create, wallet lock/unlock} by name or public key from known, unknown, "
     "upper-cased and empty client names. distinct = distinct (operation, wallet, account, reference verdict, anonymous?) tuple; non-trivial = all. Oracle: an operation that was carried out "
     "must be allowed by a reference evaluator written from the property text (first bearing item, whole-name case-insensitive match, default deny) on the resolved wallet/account name; "
     "after every refusal the slashing-protection export is unchanged.",
     q, t, real_vs_stub=REAL_W2)
q, t = tiers(120, 60, 6000, 900)
q["layers"] = [dict(runs=120, budget_s=60, params="")] * 14 + native([dict(runs=40, budget_s=60, params="mode=daemon")] * 2)
t["layers"] = [dict(runs=6000, budget_s=900, params="")] * 14 + native([dict(runs=2000, budget_s=900, params="mode=daemon")] * 2)
q["require_probes"] = t["require_probes"] = ["accounts_created_through_dirk", "nonempty_listings", "completeness_obligations", "daemon_listings", "daemon_completeness_obligations"]
plan("C18", "exploration",
     PERM_RULE + "then 3-10 listing rounds with 1-3 requested paths each (wallet only, wallet/regex, alternation, unknown wallet, empty, malformed regex, other case, distributed wallet), by known, unknown "
     "and empty clients, interleaved with account creation through Dirk. distinct = distinct (paths, result size, anonymous?); non-trivial = all. Oracle (sets): every returned account exists, "
     "lies in a requested wallet, is accessible per the reference evaluator and carries its own name and key; every accessible account whose name whole-matches a requested path is returned, "
     "including accounts created after start-up.",
     q, t, real_vs_stub=REAL_W2)

REAL_W3 = ("REAL: the dirk binary built from the working tree (-tags verif), run as short-lived processes on one storage directory (--export/--import-slashing-protection with environment configuration); "
           "between them a real handler-to-badger stack opened in the worker process on the same directory for signing and probing. No bubble, no scheduler: steps are sequential processes. "
           "Faults: self-kill of the import at a drawn storage point (VERIF_HOOK_KILL_AT); the N-th storage operation of the importing process fails (VERIF_HOOK_FAIL_AT).")
q, t = tiers(60, 120, 2500, 1500)
q["layers"] = [dict(runs=60, budget_s=120, params="")] * 8 + native([dict(runs=60, budget_s=120, params="")] * 8) + native([dict(runs=3, budget_s=120, params="mode=bulk")]) + native([dict(runs=20, budget_s=120, params="mode=daemon")])
t["layers"] = [dict(runs=2500, budget_s=1500, params="")] * 8 + native([dict(runs=2500, budget_s=1500, params="")] * 8) + native([dict(runs=60, budget_s=1500, params="mode=bulk")]) + native([dict(runs=800, budget_s=1500, params="mode=daemon")])
q["require_probes"] = t["require_probes"] = ["bulk_imports", "daemon_cli_imports", "imports_succeeded", "imports_rejected", "imports_with_wrong_metadata", "fault_import_killed_at_storage_point", "fault_import_storage_operation_failed", "probes"]
plan("C10", "exploration",
     "one case = one seeded history: 1-4 keys with drawn prior signing history (through the real signer), then 1-3 imports of generated interchange files (1-5 data entries, repeated keys, 0-2 blocks "
     "and attestations per entry with values around the protected ones - newer in one field, older in another -, unprefixed / upper-case / non-hex keys, malformed numbers, wrong version, wrong "
     "or differently written genesis root), a fifth of them first killed at a drawn storage point and then re-run, a fifth with the N-th storage operation of the importing process (or all from the N-th on) failing; each step is a real process; one worker imports files with records for 80 000-100 000 validators (128 000-160 000 records) into an empty database. distinct = distinct (file, prior database); "
     "non-trivial = all. Oracle: no exported field ever decreases across any step; wrong metadata => non-zero exit and unchanged export; after exit 0 the export covers, field by field, the "
     "key's own history and every value of every successfully imported file; a restarted instance refuses proposals at, and attestations at or below, those values.",
     q, t, real_vs_stub=REAL_W3, needs_dirk=True)
q, t = tiers(60, 120, 2500, 1500)
q["layers"] = [dict(runs=60, budget_s=120, params="")] * 8 + native([dict(runs=60, budget_s=120, params="")] * 8) + native([dict(runs=20, budget_s=120, params="mode=daemon")])
t["layers"] = [dict(runs=2500, budget_s=1500, params="")] * 8 + native([dict(runs=2500, budget_s=1500, params="")] * 8) + native([dict(runs=800, budget_s=1500, params="mode=daemon")])
q["require_probes"] = t["require_probes"] = ["legacy_format_runs", "probes", "daemon_cli_exports"]
plan("C11", "exploration",
     "one case = one seeded history over 1-4 keys: optionally a store pre-populated with old-format (gob) attestation and proposal records of drawn values incl. zeros, then 0-15 well-formed "
     "single / batched attestation and proposal requests; distinct = distinct history; non-trivial = all. Oracle: every verdict agrees with the reference model started from the stored records; "
     "the export (rules API, and dirk --export-slashing-protection after shutdown) states exactly the highest slot / source / target per key; the export imports into an empty instance with exit 0 "
     "and that instance answers a shuffled probe sequence (every value +-1, zero, genesis) exactly as the restarted original.",
     q, t, real_vs_stub=REAL_W3, needs_dirk=True)

# W7 (the dirk binary as a daemon process) needs the binary built from the tree under test.
for _p in ("C01", "C02", "C03", "C05", "C07", "C17", "C18", "C19", "C20"):
    PLANS[_p]["needs_dirk"] = True
# Before the repair of main.go the order of a client's entries followed Go's map iteration: a replay may need several starts of the daemon.
PLANS["C07"]["replay_attempts"] = 12
PLANS["C18"]["replay_attempts"] = 12
