"""Level texts of the claimed checks (used by tools/gen_manifest.py)."""
TRUST = ("Trusted: Go runtime/synctest, badger, herumi BLS verification, porcupine, the reference model written from the property text. "
         "Atomicity granularity is the yield-point set (lock acquisition, store access, rules entry/exit, Sign); "
         "sampling over seeds, not exhaustive.")
TEXTS = {
    "C04": dict(
        technique="deterministic simulation: seeded interleavings of real request goroutines + porcupine linearizability vs. reference model",
        level_text="Seeded search over interleavings of 2-8 concurrent single/batch attestation and proposal requests on 1-4 shared keys, real "
                   "signer/ruler/locker/rules/badger code, one thread released at a time at lock/store/rules/sign yield points; every recorded "
                   "invoke/return history (stamped with scheduler event numbers, final export appended as a read) is checked by porcupine against "
                   "the watermark state machine, and released signatures are checked pairwise for slashability. In a third of the runs clients abandon requests in flight (context cancelled at a drawn step; "
                   "such requests may or may not have left their record, modelled with porcupine's nondeterministic model). Exploration is the right level: "
                   "the property quantifies over schedules, which only a controlled scheduler can enumerate reproducibly.",
        level_note=TRUST + " A non-linearizable verdict is reported only if the same operations run sequentially agree with the model (guards against an over-strict model)."),
    "C15": dict(
        technique="deterministic simulation: seeded interleavings with enabledness from the real mutexes; deadlock = empty enabled set",
        level_text="Same simulated world and schedule space as C04 (plus sustained-load runs in the thorough tier). A thread is released only when "
                   "TryLock on the real mutex it is about to take succeeds; a state in which requests remain but no thread is enabled is a real "
                   "lock cycle and is reported with the schedule that produced it; every run ends with a drain phase (one more request per key and one naming all keys must complete), so a lock that is never released is found behaviourally. "
                   "One worker runs free-running load (real unscheduled goroutines, crossing key orders) and reports requests that stay blocked across two goroutine dumps with nothing running - for locks the scheduler has no hook for.",
        level_note=TRUST + " A run that exhausts its (workload-derived) step budget is counted as truncated/inconclusive, never as a violation."),
}
TEXTS["C01"] = dict(
    technique="deterministic simulation: seeded conflict-seeking request histories (sequential and scheduled-concurrent) with restarts; pairwise ledger oracle",
    level_text="Seeded search over histories of attestation requests against one real Dirk instance (handlers to badger): each request is derived from what "
               "has already been released for the key (same target/different root, surround, surrounded, advance, boundary values up to 2^64-1), single and "
               "batched, by name/key/both, batches repeating a key; half the runs execute phases of 2-5 requests concurrently under the seeded scheduler; "
               "clean restarts and crash restarts (directory image) occur between requests. Every released signature is BLS-verified and compared pairwise "
               "with every earlier one for the key; a quarter of the concurrent histories meet transient storage errors. One worker runs free-running parallel batches (real goroutines on all "
               "processors) and attributes every signature to the key it actually verifies under. Exploration over histories is what the property quantifies over.",
    level_note=TRUST)
TEXTS["C02"] = dict(
    technique="deterministic simulation: seeded conflict-seeking proposal histories with restarts; pairwise ledger oracle, strict slot order in sequential histories",
    level_text="As C01 for block proposals: same-slot/different-block, lower-slot, advancing and boundary slots (up to 2^64-1), proposer and foreign domains, "
               "by name and by key, sequential or in concurrent phases, with clean and crash restarts. Released proposals are compared pairwise per key; in "
               "sequential histories slots must strictly increase in release order (under concurrency response order is not defined, so only the pairwise check applies there).",
    level_note=TRUST)
TEXTS["C03"] = dict(
    technique="deterministic simulation with crash injection: (1) in-process crashes at seeded yield points with restart on directory images, (2) real child processes SIGKILLed at every storage point, (3) power-loss images derived from a syscall trace of a child; ledger, sign-seam and acknowledgement oracles",
    level_text="Three layers. (1) Seeded search over (history, schedule, crash point, surviving image) for one real Dirk instance on badger: the simulator kills the incarnation at a drawn yield "
               "point (biased to: before a store write, torn inside it, after it but before approval, between approval and Sign), restarts the real stack on the surviving directory image and "
               "continues with conflict-seeking requests, up to 3 crashes per run; oracles: no conflicting pair in the ledger of released signatures across incarnations, export after each "
               "restart covers every released signature, when Sign is invoked the live store and (sampled) a fresh process on a copy of the directory already cover the duty, with "
               "GOMAXPROCS=1 the value log must not grow after a storage call has returned. (2) The same kind of seeded workload in a real child process that SIGKILLs "
               "itself at its N-th storage point (entry and completion of Fetch/Store/BatchStore), N swept over the workload by consecutive seeds; the parent holds the signatures announced "
               "on stdout, reopens the directory and requires coverage and refusal of every conflicting duty; up to two further incarnations on the same directory are killed in turn "
               "(drawn storage point 1..8, periodic pruning drawn per incarnation). (3) A child is traced with strace; from openat flags, writes and fsyncs a per-file "
               "durability model is built and, for every system-call boundary after the first released signature, images = durable prefix + {nothing, a write-back prefix, a torn prefix} of "
               "the volatile suffix (and torn synchronous writes) are opened by a fresh rules service, which must cover everything released before the cut. (4) The child's store "
               "sits on a tmpfs with 0-28 KB left: the workload runs into ENOSPC (short writes, torn value-log tail) inside badger; what the incarnations announced must be "
               "free of conflicts and covered by what a fresh stack finds on the directory, with and without space made.",
    level_note=TRUST + " Layer 1 is process-kill semantics on a quiescent directory image; layer 3 assumes append-only files and ordered directory operations (true for badger's value log and MANIFEST) "
               "and does not model reordering inside a synced range. An image that badger refuses to open (torn tail, truncation is off) counts as safe: the instance signs nothing.")
TEXTS["C08"] = dict(
    technique="deterministic simulation: seeded batch shapes x GOMAXPROCS with scheduled scatter workers; independent SSZ signing root + BLS verification per position",
    level_text="Seeded search over request kind, batch size (1..512) and GOMAXPROCS (1..128), with scatter workers of small batches released in drawn order by the "
               "scheduler: every signature returned by the real gRPC signer handlers is BLS-verified under the public key of the account addressed at that position over a "
               "signing root recomputed by an independent merkleiser, and the response must have exactly one entry per request; an eighth of the rounds put 2-3 batch requests over disjoint "
               "keys in flight at once under the scheduler (sometimes behind a refused batch); one worker runs such batches free-running on all processors. The same monitor (M2) is active in "
               "every other simulated run of the suite. Exploration: the property quantifies over inputs x degree of parallelism.",
    level_note=TRUST + " 'Well-formed' means 32-byte roots and domains; other lengths are C06/C20 territory.")
TEXTS["C09"] = dict(
    technique="deterministic simulation: twin instances (batch vs one-at-a-time) on identical seeded histories x GOMAXPROCS; reference model for liveness; exhaustive Scatter partition table",
    level_text="Seeded histories of well-formed, authorised attestation batches (sizes 1..512 over distinct keys, GOMAXPROCS 1..128, scatter workers scheduled in drawn order) "
               "go to instance A as batches and entry by entry to an identical twin B: verdict vectors must agree position by position and with the reference model (advancing "
               "requests below 2^63 are signed: equal consecutive sources, genesis 0/0, values at 2^63-1); the rules wrapper counts evaluations per index (exactly once). "
               "util.Scatter is enumerated completely for n in [1,600] x GOMAXPROCS in [1,64] (partition check).",
    level_note=TRUST)
TEXTS["C06"] = dict(
    technique="fault injection in deterministic simulation: complete single-fault matrix (site x request kind x batch size x position) + seeded multi-fault sequences under concurrent load",
    level_text="The single-fault matrix (1043 cases: 22 dependency/IO/input fault sites x 5 request kinds x batch sizes {1,2,3,5,17} x every position) is enumerated completely "
               "on every run of either tier against the real handler-to-badger stack, with faults injected through the repo's interfaces and, for the store, through "
               "the verifhook storage points; on top of it seeded runs inject store/rules/Sign faults at yield points of 2-6 concurrent requests, pre-drawn "
               "lookup/permission/unlock faults and a store closed under load, a third of them over like-named accounts of two wallets. Oracle: signature iff SUCCEEDED at every position, no signature at any position whose "
               "path met a fault, no panic. fault_enumeration is the right level: the property quantifies over fault sites and sequences.",
    level_note=TRUST + " badger's WriteBatch.Flush never returns on a closed database; the simulator makes that one call fail instead of hanging (counted in evidence), see DESIGN.md section 9.")
TEXTS["C05"] = dict(
    technique="deterministic simulation: seeded configurations (admin-IP lists) x requests (endpoint x domain class x source address), incl. rules-fault configurations; endpoint/domain monitor",
    level_text="Seeded search over administrator lists, source addresses and per-position domains (every 4-byte class incl. near misses x random suffix) across all five "
               "signing endpoints of a real instance, a quarter of the runs with the rules answering UNKNOWN/FAILED: no generic signature under attester/proposer types, "
               "no attestation/proposal signature under a foreign type (state untouched by such refusals), voluntary-exit only for a listed source. The rule itself has no "
               "schedule in it; what simulation adds is the batch endpoints under real worker parallelism, the error-path configurations and the check on the real store. A 48-case table "
               "over real gRPC/TLS (administrator list x loopback address the client binds to x forwarding headers x Sign/Multisign) decides that the source is the connection's own address.",
    level_note=TRUST + " The schedule dimension is vacuous for this property (stated in DESIGN.md section 8); the endpoint/domain monitor (M4) also runs in every other W1/W2 check.")
TRUST2 = ("Trusted: Go runtime/synctest, badger, herumi BLS (incl. Recover), the wallet libraries, protobuf. The DKG transport is simulated (see real_vs_stub in the evidence); "
          "OnExecute iterates a Go map when sending its contributions, which the simulator cannot own: faults are therefore addressed by message identity and oracles use only order-independent facts.")
TEXTS["C12"] = dict(
    technique="deterministic simulation of a cluster: real DKG services of up to 9 instances over a simulated transport, seeded (n,t)/id-set/initiator/reply-order space, threshold-signature oracle",
    level_text="Seeded search over cluster configurations: (n,t) walks the complete table 1<=n<=7 x 0<=t<=n+1 (42 pairs), id sets small/large/near 2^64/sparse, any initiating "
               "instance incl. non-participants, drawn participant order, commit replies released in drawn order by the scheduler, tampered commit replies. After a reported success every "
               "participant's wallet store is read back and compared (composite key = returned key, vector, threshold, participants, share = vector at own id), every t-subset of partial "
               "signatures from the real signers must recover a valid composite signature and no (t-1)-subset may, listing and signing work at once and after a restart; every t outside "
               "n/2<t<=n must be refused before any message is sent.",
    level_note=TRUST2)
TEXTS["C13"] = dict(
    technique="fault injection in deterministic cluster simulation: complete message x fault matrix on the simulated transport (loss, error, duplicate, 9 contribution tamperings in both directions) + seeded double faults",
    level_text="The single-fault matrix over every prepare/execute/contribute message (request and reply) of generations with (n,t) in {(2,2),(3,2),(3,3),(4,3),(5,3)} (+(5,4),(7,4) thorough) is "
               "enumerated completely (849 / 1906 cases) against real process services and receiver handlers; seeded runs add double faults on drawn id sets. Oracle: error to the client, no "
               "account in any instance's wallet store or cache, no panic in any handler call, and a subsequent fault-free generation under another name succeeds with a consistent key.",
    level_note=TRUST2 + " Faults during commit are outside this property (C13 covers prepare/execute/contribute).")
TEXTS["C16"] = dict(
    technique="deterministic cluster simulation: complete caller-identity x message x session-state table through the real receiver handlers (fake clock for expiry) + share-ownership monitor on the simulated transport",
    level_text="The 630-case table {peer, peer outside the generation, fully-permitted ordinary client, empty, unknown, peer name in other case, with a suffix, as host of a longer domain name, with a trailing dot, a prefix of it, with a port, with a leading space} x {prepare, execute, contribute, commit, abort} x "
               "{none, prepared, executed, committed, aborted, expired} (and, for the non-peer callers, once more after a genuine peer's earlier Prepare for another account named the caller among its participants) is enumerated completely on a 4-instance cluster (3 participants) of real services: a non-peer must get an error and no share, and "
               "the legitimate run must continue from that state to a committed account on every participant (so a refused message created, deleted or altered nothing). A monitor "
               "checks every contribution the transport carries (here and in seeded generations with drawn n, t and id sets): the share equals the originator's vector evaluated at the "
               "recipient's id and at no other participant's id; a peer replaying a consistent contribution gets only its own share back. A sixteenth worker runs a 60-case credential x message "
               "table over real gRPC/TLS against an instance whose peers are named like the repository's signer certificates (after a genuine peer has opened the session): only a caller whose "
               "verified leaf certificate names a peer is honoured - a peer's public certificate riding along in a client's chain is not - and the genuine peer's session survives; another worker lets "
               "genuine peers and ordinary clients use that edge at the same time (free-running, ~100 000 requests): no client is ever taken for a peer.",
    level_note=TRUST2 + " In the simulated cluster peer identity is the authenticated name injected into the context as the TLS interceptor does; the TLS-edge table exercises the interceptor itself (as does C19).")
TEXTS["C17"] = dict(
    technique="deterministic cluster simulation with fake clock: seeded prepare/execute/commit/abort/clock-advance sequences vs. a reference session lifecycle fed by observed transport facts",
    level_text="Seeded search over event sequences (8-31 events, 1-3 account names, 3 real instances, generation timeout 1 ms .. 10 min on the synctest fake clock, clock advances landing 1 ns "
               "before / exactly on / 1 ns after a session's expiry) issued by the harness as coordinator through the real receiver handlers. A reference lifecycle per (instance, account), "
               "updated only from observed facts (which contribution exchanges the transport completed, which calls succeeded), is checked in exactly the directions the property states; "
               "partial progress of a failed execute and the instant exactly at the timeout are left undecided. One worker sends 2-11 prepare (then abort) messages for one name to one instance at the same instant, free-running: exactly one is accepted.",
    level_note=TRUST2)
TEXTS["C14"] = dict(
    technique="deterministic cluster simulation: real DKG then adversarially routed conflicting duties, concurrent per-instance interleavings, crash/clean restarts; threshold-count oracle on BLS-valid partial signatures",
    level_text="Seeded search over (n,t) accepted by key generation, id sets, conflict type, routing strategy, request form (name / share key, single / batch endpoint), per-instance "
               "interleavings of the concurrent requests and crash/clean restarts between two request phases, on a cluster of real instances each with its own slashing database. "
               "Partial signatures are BLS-verified under the share keys and counted per duty and instance; both duties must never reach t, and a duty that does must recover a "
               "signature valid under the composite key returned by the generation.",
    level_note=TRUST2)
TEXTS["C19"] = dict(
    technique="hostile-client fault injection against a live in-process daemon edge: exhaustive server-config x method x credential x wallet table over real gRPC/TLS (no scheduler applies)",
    level_text="The complete 832-case table {authority configured, none configured} x 16 RPC methods x 13 caller credentials x 2 target wallets is run against real services/api/grpc "
               "servers (TLS 1.3, client-certificate verification, interceptors, handlers, services) on a loopback port, with well-formed payloads that would succeed for a permitted client. "
               "Untrusted callers must obtain no response message and change nothing; trusted callers are served strictly by the subject name of their verified certificate. One worker "
               "runs two differently certified groups of clients against the daemon at the same time (free-running): nobody is served under another caller's name.",
    level_note="No schedule, clock or fault sequence is involved in this property: the simulation technique contributes the hostile peers and the in-process real edge, not interleavings (DESIGN.md section 8). "
               "Trusted: Go crypto/tls and x509, gRPC. Certificates: the repository's testing authority plus authorities generated at run time (one placed in the host trust store via SSL_CERT_FILE).")
TEXTS["C20"] = dict(
    technique="structure-aware seeded request generation through the protobuf wire encoding against real handlers in an isolated worker process, with liveness canary and write-ahead replay",
    level_text="Seeded structure-aware generation of requests for every RPC of the four client-facing services and of key-generation messages from non-peers (boundary byte lengths, absent "
               "fields, extreme integers, empty / huge / nil-containing batches, malformed names, listing paths assembled from regular-expression fragments), passed through a protobuf wire round trip and handed to the real handlers of an instance "
               "hosted by the worker process, each followed by a canary request from another client. A panic on the handler goroutine is recorded in-process; a panic on any other goroutine "
               "kills the worker, which the driver attributes to the seed written ahead of the run and confirms by replaying it in a fresh process. Two workers send volleys of 8-32 "
               "simultaneous requests (real parallelism) at a fresh instance with cold caches: failures that need two threads in the same code at the same instant.",
    level_note="An input-space property: no schedule is explored; the technique contributes process isolation, the canary and exact replay (DESIGN.md section 8). peers.Suitable is re-implemented, so "
               "its allocation of one slot per requested participant is not exercised. Resource exhaustion is reported only if the process dies in this sandbox.")
TEXTS["C07"] = dict(
    technique="seeded configuration and request generation against the real service stack with a reference permission evaluator written from the property text; state-unchanged check on the real store",
    level_text="Seeded search over permission tables (ordered entries with literal / regular-expression wallet and account patterns incl. alternation, classes, own anchors, mixed case; ordered "
               "operation lists with All/None/op/~op) and over requests (nine operation kinds incl. batch and multisign forms, by name or public key, wallet operations with trailing path "
               "components, known / unknown / upper-cased / empty clients) on a real single-instance stack. Every operation that was carried out must be allowed by the reference evaluator "
               "on the resolved wallet/account name, and every refusal must leave the slashing-protection export unchanged.",
    level_note="The decision itself is a pure function of (table, request): the schedule dimension is vacuous (DESIGN.md section 8); the simulator supplies the stateful whole-system part. Trusted: Go regexp "
               "(shared by code and reference; the reference differs in how a pattern is anchored, which is the property).")
TEXTS["C18"] = dict(
    technique="seeded configuration, population and path-list generation against the real lister with dynamic account creation; set-based soundness and completeness oracle from the reference evaluator",
    level_text="Seeded search over permission tables (as C07, per account), requested path lists (1-3 paths: wallet only, wallet/regex, alternation, unknown, empty, malformed, other case) and "
               "histories interleaving listings with account creation through Dirk. Soundness: every returned account exists, lies in a requested wallet, is accessible per the reference "
               "evaluator and carries its own name and public key. Completeness: every accessible account whose name whole-matches a requested path is returned, including accounts created "
               "after start-up. Compared as sets, never by order.",
    level_note="Listing of accounts created by distributed key generation (composite and share keys) is checked in C12. Trusted: Go regexp.")
TEXTS["C10"] = dict(
    technique="process-level simulation: seeded prior histories and generated interchange files driven through the real dirk binary as a sequence of processes, with self-kill of imports at storage points; field-wise monotonicity and coverage oracle plus behavioural probes",
    level_text="Seeded search over (prior database, sequence of 1-3 interchange files) with every step a real process of the dirk binary built from the working tree: sign through a real stack, "
               "export, import (a fifth killed at a drawn storage point and re-run), export, restart and probe. Oracle: no exported field ever decreases; wrong version / genesis root => "
               "non-zero exit and unchanged export; after exit 0 every key is recorded at least at the field-wise maximum of its own history and all values of successfully imported files; "
               "a restarted instance refuses proposals at and attestations at or below those values.",
    level_note="Negative or unparsable numbers and non-hex keys are treated as malformed input: rejection or being ignored are both accepted, weakening is not. Trusted: badger, the JSON decoder. "
               "Kill semantics are process kill (SIGKILL from inside the hook), not power loss.")
TEXTS["C11"] = dict(
    technique="process-level simulation: seeded signing histories (optionally over gob-encoded old-format records) through a real stack, exported through the rules API and the real dirk binary, re-imported into an empty directory, decisions of original and copy compared on shuffled probe sequences",
    level_text="Seeded search over histories of well-formed single and batched requests, optionally starting from a store pre-populated with old-format records of drawn values (incl. zeros) "
               "mixed with absent ones: every verdict must agree with the reference model started from the stored records, the export (rules API; dirk --export-slashing-protection after a "
               "clean shutdown) must state exactly the highest slot, source and target per key, and an empty instance that imports that export must answer a shuffled probe sequence exactly "
               "as the restarted original.",
    level_note="Trusted: encoding/gob for producing old-format records (same field names as the original structs), badger.")
NOT_APPLICABLE = {}
